#!/usr/bin/env python3
"""subst.py FILE  (reads a python literal list of (old,new) pairs from stdin)
Replace text in FILE preserving its line endings (CRLF or LF). Each old must occur exactly once."""
import sys, ast
p = sys.argv[1]
raw = open(p, 'rb').read()
crlf = b'\r\n' in raw
s = raw.decode('utf-8').replace('\r\n', '\n')
for old, new in ast.literal_eval(sys.stdin.read()):
    assert s.count(old) == 1, (s.count(old), old)
    s = s.replace(old, new)
if crlf:
    s = s.replace('\n', '\r\n')
open(p, 'wb').write(s.encode('utf-8'))

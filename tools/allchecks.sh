#!/bin/bash
# tools/allchecks.sh <tier> <seed> [ids...] : run the registered checks one after another, print one summary line each
tier=${1:-quick}; seed=${2:-1}; shift; shift
ids=${@:-C01 C02 C03 C04 C05 C06 C07 C08 C09 C10 C11 C12 C13 C14 C15 C16 C17 C18 C19 C20}
cd "$(dirname "$0")/.."
export VERIF_EVIDENCE_DIR=${VERIF_EVIDENCE_DIR:-$(pwd)/.scratch_evidence_$tier_$seed}
export VERIF_REPLAY_DIR=${VERIF_REPLAY_DIR:-$(pwd)/.scratch_replays}
for p in $ids; do
  out=$(VERIF_SEED=$seed ./check $p --tier $tier 2>&1); rc=$?
  echo "seed=$seed $tier $p exit=$rc :: $(echo "$out" | grep -E "^$p $tier" | cut -c1-260)"
  echo "$out" | grep -E "^VIOLATION|bucket=|INCONCLUSIVE|HARNESS" | cut -c1-400 | head -8
done

#!/bin/bash
# tools/process_seed.sh <worktree dir> <seed id>  -- one seeded change end to end:
#   confirm it independently (tools/verify_seed.sh), then run the owning property's quick check against it at
#   VERIF_SEED 1..3 until caught, keeping a directed case (tools/harvest_seed.sh). One verdict line per attempt
#   is appended to seeded/HARVEST.txt and printed.
cd "$(dirname "$0")/.."
wt=$1; sid=$2; prop=${sid%%-*}
v=$(tools/verify_seed.sh "$wt" "$sid" 2>&1); echo "$v"
echo "$v" | grep -q "CONFIRMED$" || exit 1
echo "$v" | grep -q "NOT CONFIRMED" && exit 1
for vs in 1 2 3; do
  line=$(tools/harvest_seed.sh $sid $prop quick $vs | cut -c1-400)
  echo "$line" | tee -a seeded/HARVEST.txt
  case "$line" in *"exit=1 kept=C"*) exit 0;; esac
done
exit 2

#!/bin/bash
# tools/reverify_seeds.sh [pattern] : re-confirm every stored seeded change against the CURRENT /repo (later fix: commits can
# neutralise one): clean copy -> demo exits 0; patched copy -> demo exits 1. One line per seed -> seeded/REVERIFY.txt
cd "$(dirname "$0")/.."
pat=${1:-C*-*}
: > seeded/REVERIFY.txt
for d in seeded/$pat/; do
  sid=$(basename $d)
  scratch=$(mktemp -d /dev/shm/aqrv.XXXXXX)
  rsync -a --exclude .git --exclude docs --exclude '*.ipynb' /repo/ "$scratch/"
  cp $d/demo.py "$scratch/demo.py"
  ( cd "$scratch"; PYTHONPATH="$scratch" timeout 900 /venv/bin/python -W ignore demo.py > .c.log 2>&1; echo $? > .c.rc
    if patch -p1 -s < /verif/$d/patch.diff; then PYTHONPATH="$scratch" timeout 900 /venv/bin/python -W ignore demo.py > .m.log 2>&1; echo $? > .m.rc; else echo PATCHFAIL > .m.rc; fi )
  echo "$sid clean=$(cat $scratch/.c.rc) patched=$(cat $scratch/.m.rc)" >> seeded/REVERIFY.txt
  rm -rf "$scratch"
done
echo DONE >> seeded/REVERIFY.txt

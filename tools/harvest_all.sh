#!/bin/bash
# tools/harvest_all.sh [pattern] : harvest a directed sensitivity case for every seeded change (owning property's quick
# check, VERIF_SEED 1..3 until caught); one line per attempt -> seeded/HARVEST.txt
cd "$(dirname "$0")/.."
pat=${1:-C*-*}
for d in seeded/$pat/; do
  sid=$(basename $d); prop=${sid%%-*}
  [ -f replays/regression-$prop-seeded-$sid.json ] && continue
  for vs in 1 2 3; do
    line=$(tools/harvest_seed.sh $sid $prop quick $vs | cut -c1-300)
    echo "$line" >> seeded/HARVEST.txt
    case "$line" in *"exit=1 kept=C"*) break;; esac
  done
done
echo DONE >> seeded/HARVEST.txt

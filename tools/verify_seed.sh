#!/bin/bash
# tools/verify_seed.sh <worktree dir> <seed id>  -- independently confirm a seeded change:
#   clean copy: demo exits 0; with patch: the repository's tests pass and demo exits 1. Then store under seeded/<seed id>/
wt=$1; sid=$2
scratch=$(mktemp -d /dev/shm/aqseed.XXXXXX)
trap 'rm -rf "$scratch"' EXIT
rsync -a --exclude .git --exclude docs --exclude '*.ipynb' /repo/ "$scratch/"
cp "$wt/demo.py" "$scratch/demo.py"
cd "$scratch"
PYTHONPATH="$scratch" timeout 900 /venv/bin/python -W ignore demo.py > "$scratch/.demo_clean.log" 2>&1; clean=$?
patch -p1 -s < "$wt/mutation.patch" || { echo "$sid: PATCH FAILED"; exit 3; }
tests=$(PYTHONPATH="$scratch" /venv/bin/python -m pytest -q -p no:cacheprovider tests 2>&1 | tail -1)
PYTHONPATH="$scratch" timeout 900 /venv/bin/python -W ignore demo.py > "$scratch/.demo_mut.log" 2>&1; mut=$?
echo "$sid: demo(clean)=$clean demo(mutated)=$mut tests: $tests"
if [ "$clean" = 0 ] && [ "$mut" = 1 ] && echo "$tests" | grep -q "33 passed"; then
  mkdir -p /verif/seeded/$sid
  cp "$wt/mutation.patch" /verif/seeded/$sid/patch.diff
  cp "$wt/demo.py" /verif/seeded/$sid/demo.py
  cp "$wt/NOTES.md" /verif/seeded/$sid/NOTES.md
  tail -5 "$scratch/.demo_mut.log" > /verif/seeded/$sid/demo_output_with_change.txt
  echo "$sid: CONFIRMED"
else
  echo "$sid: NOT CONFIRMED"; tail -3 "$scratch/.demo_clean.log"; tail -3 "$scratch/.demo_mut.log"
fi

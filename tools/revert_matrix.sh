#!/bin/bash
# tools/revert_matrix.sh : for every fix commit, apply its reverse to a scratch copy and run the owning property's quick check;
# expect exit 1 (the defect is detected again).
cd /verif
declare -A OWN=( [22cb80a]=C15 [66769b2]=C12 [314e52a]=C11 [f48a648]=C08 [dbcb8fe]=C08 [a922f38]=C04 [fd00c5c]=C16 [61d664c]=C16 [f11b015]=C16 [131988f]=C20 [7d8938e]=C07 [05216c9]=C18 [be94740]=C16 [2ee1906]=C03 [d61c8b2]=C18 [4ab1b8f]=C05 [1b20e0d]=C08 [d350821]=C16 [8411f79]=C19 [17b345c]=C16 [1f2795c]=C11 [0cc1259]=C11 [49f31f2]=C10 [7493f30]=C10 [d3f0933]=C04 )
for c in "${!OWN[@]}"; do
  p=$(ls mutants/revert_${c}_*.patch)
  r=$(SELFTEST_TAIL=400 ./selftest $p ${OWN[$c]} 2>&1)
  echo "$c ${OWN[$c]} $(echo "$r" | grep -c '^VIOLATION') violation-lines $(echo "$r" | tail -1)  :: $(echo "$r" | grep 'bucket=' | head -2 | cut -c1-160 | tr '\n' '|')"
done

#!/usr/bin/env python3
"""Regenerate /verif/MANIFEST.json from the property modules that exist (harness/props/Cxx.py).
Run: /venv/bin/python tools/mkmanifest.py"""
import importlib
import json
import os
import sys

HERE = os.path.dirname(os.path.dirname(os.path.abspath(__file__)))
sys.path.insert(0, HERE)
import harness  # noqa: E402,F401

props = [json.loads(l) for l in open(os.path.join(HERE, "properties.jsonl"))]
checks, na = [], []
for p in props:
    pid = p["id"]
    path = os.path.join(HERE, "harness", "props", pid + ".py")
    if not os.path.exists(path):
        na.append({"property_id": pid, "reason": "check not built yet (work in progress; designed in DESIGN.md section 5)"})
        continue
    mod = importlib.import_module("harness.props." + pid)
    checks.append({
        "property_id": pid,
        "quick_cmd": "./check %s --tier quick" % pid,
        "thorough_cmd": "./check %s --tier thorough" % pid,
        "evidence_file": "evidence/%s.json" % pid,
        "replay_cmd_template": "./check %s --replay {path}" % pid,
        "engine": "harness",
        "level_claimed": {
            "category": "exploration",
            "text": getattr(mod, "LEVEL_TEXT", mod.RULE),
            "design_ref": "DESIGN.md section 5, %s" % pid,
        },
        "level_note": "; ".join(mod.ASSUMPTIONS),
        "technique": getattr(mod, "TECHNIQUE", "property-based testing (Hypothesis-generated configurations, explicit oracle)"),
    })
man = {
    "version": 1,
    "setup_cmd": "/venv/bin/pip install --no-index --find-links /opt/veriftools/wheels hypothesis >/dev/null 2>&1; /venv/bin/python -c 'import hypothesis, numpy, pandas'",
    "hooks": {
        "guard": "AQUACROP_VERIF",
        "enable": "no source hooks: the harness observes through public getters, model attributes between run_model(num_steps=1) calls and harness-side wrappers rebinding names in aquacrop.core / aquacrop.timestep.run_single_timestep at run time",
        "baseline_off_cmd": "cd /repo && /venv/bin/python -m pytest -ra -q -p no:cacheprovider --timeout=900 --continue-on-collection-errors",
        "source_commits": [],
        "add_only": True,
    },
    "engines": [{
        "name": "harness",
        "path": "harness/",
        "serves_properties": [c["property_id"] for c in checks],
        "kind_free_text": "Python property-based testing harness on Hypothesis 6.168: JSON configuration model, composite strategies, step-wise observation layer, reference models, sharded campaigns over 16 processes, shrink-lite, known-findings file",
    }],
    "checks": checks,
    "not_applicable": na,
    "notes": "Runner: ./check <id> [--tier quick|thorough] [--replay FILE]; VERIF_SEED selects the Hypothesis seed; exit 2 = harness error / inconclusive (never a VIOLATION line). Known findings: known_findings.json. Sensitivity tool (not a check): ./selftest <patch> <id>.",
}
with open(os.path.join(HERE, "MANIFEST.json"), "w") as f:
    json.dump(man, f, indent=1)
print("checks:", [c["property_id"] for c in checks], "not_applicable:", [n["property_id"] for n in na])

#!/bin/bash
# tools/seed_all.sh : run every seeded change against its owning property's quick check; one line per seed -> seeded/RESULTS.txt
cd "$(dirname "$0")/.."
out=seeded/RESULTS.txt; : > $out.tmp
for d in seeded/C*-*/; do
  sid=$(basename $d); prop=${sid%%-*}
  tools/seed_matrix.sh $sid $prop | cut -c1-260 >> $out.tmp
done
mv $out.tmp $out

#!/venv/bin/python
"""Write the committed regression cases of the fixed findings (replays/regression-<ID>-<name>.json).
Each file is a case of the property module named in its prefix and is replayed first in every run."""
import copy
import json
import os
import sys

HERE = os.path.dirname(os.path.dirname(os.path.abspath(__file__)))
sys.path.insert(0, HERE)


def W(first="2000-04-20", days=1200, **kw):
    d = dict(kind="synth", first=first, days=days, tmean=22.0, amp=6.0, phase=0, dtr=10.0, et0=5.0, rain_p=0.25, rain_mm=9.0, noise=5, events=[])
    d.update(kw)
    return d


def base(**kw):
    c = dict(start="2000/05/01", end="2000/12/30", off_season=False, crop=dict(name="Maize", planting="05/01", harvest=None, overrides={}),
             soil=dict(type="SandyLoam", args={}), iwc=None, irr=dict(method=0), fm=None, ffm=None, gw=None, co2=None, weather=W())
    for k, v in kw.items():
        c[k] = v
    return c


def crop(name, planting="05/01", harvest=None, **ov):
    return dict(name=name, planting=planting, harvest=harvest, overrides=ov)


CASES = {
    # F12: curve-number depth inside a compartment / AlfalfaGDD on a built-in soil with defaults
    "C12-F12-zcn-inside-compartment": base(soil=dict(type="SandyLoam", args={"z_cn": 0.25}), weather=W(rain_p=0.5, rain_mm=15.0)),
    "C12-F12-alfalfa-defaults": base(crop=crop("AlfalfaGDD"), soil=dict(type="Loam", args={}), end="2001/04/20", weather=W(tmean=20.0, rain_p=0.4)),
    # F11: dated schedule, re-runs over the same objects
    "C11-F11-schedule-rerun": dict(cfg=base(irr=dict(method=3, schedule=[["2000-06-01", 20.0], ["2000-07-01", 30.0]])),
                                   ops=["rerun_same_model", "new_model_same_objects", "new_model_same_objects_stepwise"], step=17),
    # F8a / F8b
    "C08-F8a-net-irrigation-dry-start": base(end="2002/12/30", irr=dict(method=4, NetIrrSMT=70.0),
                                             iwc=dict(wc_type="Prop", method="Layer", depth_layer=[1], value=["WP"])),
    "C08-F8b-interval-irrigation": base(end="2002/12/30", irr=dict(method=2, IrrInterval=7)),
    "C08-F8b-threshold-irrigation": base(end="2002/12/30", irr=dict(method=1, SMT=[80.0, 80.0, 80.0, 80.0])),
    # F4: dense canopy, well watered, with and without ponding
    "C04-F4-soybean-dense-canopy": base(crop=crop("Soybean"), irr=dict(method=5, depth=7.0)),
    "C04-F4-drybean-bunds": base(crop=crop("DryBean"), irr=dict(method=5, depth=8.0), fm=dict(bunds=True, z_bund=0.1, bund_water=30.0),
                                 soil=dict(type="Clay", args={})),
    # F16b: crops without a dry-matter content
    "C16-F16b-cassava": base(crop=crop("Cassava"), end="2001/12/30", weather=W(tmean=26.0)),
    "C16-F16b-maizechampion": base(crop=crop("MaizeChampionGDD"), weather=W(tmean=24.0)),
    "C16-F16b-localpaddy": base(crop=crop("localpaddy"), soil=dict(type="Paddy", args={}),
                                iwc=dict(wc_type="Prop", method="Layer", depth_layer=[1, 2], value=["FC", "FC"]), weather=W(tmean=26.0)),
    "C16-F16b-potatolocal": base(crop=crop("PotatoLocalGDD"), weather=W(tmean=17.0)),
    "C16-F16a-etadj0": base(crop=crop("Maize", ETadj=0)),
    "C16-F16d-end-feb29": base(start="2002/05/01", end="2004/02/29", weather=W(first="2002-04-20", days=900)),
    "C16-F16e-bunds-height0": base(fm=dict(bunds=True)),
    # F20
    "C20-F20-cn-percentage-without-flag": dict(cfg=base(weather=W(rain_p=0.5, rain_mm=20.0)), kinds=["cn_pct_off"],
                                              p=dict(mulch_pct=60.0, f_mulch=0.7, z_bund=0.2, bund_water=80.0, cn_pct=-20.0, smt=[60.0] * 4, interval=7,
                                                     depth=12.0, net=60.0, eff=70.0, wet=50.0, neutral_mulch="cover0", neutral_irr="depth0", neutral_method=5)),
    # F7
    "C07-F7-latest-harvest-date-offseason": base(crop=crop("Maize", harvest="07/10"), off_season=True, end="2001/04/30", irr=dict(method=5, depth=5.0)),
    "C06-F7-latest-harvest-date-offseason": base(crop=crop("Maize", harvest="07/10"), off_season=True, end="2001/04/30", irr=dict(method=5, depth=5.0)),
    "C13-F7-latest-harvest-date-offseason": base(crop=crop("Maize", harvest="07/10"), off_season=True, end="2001/04/30", irr=dict(method=5, depth=5.0)),
    # F18b / F18c
    "C18-F18b-no-thin-compartment-left": base(soil=dict(type="SandyLoam", args={"dz": [0.2] * 6, "z_top": 0.3})),
    "C18-F18b-short-compartment-list": base(soil=dict(type="Loam", args={"dz": [0.1] * 5, "z_top": 0.3})),
    "C18-F18c-layer-bottom-on-boundary": base(soil=dict(type="custom", args={}, layers=[
        dict(kind="hyd", thickness=0.7, wp=0.10, fc=0.30, sat=0.50, ksat=500.0, pen=100),
        dict(kind="hyd", thickness=0.1, wp=0.30, fc=0.50, sat=0.55, ksat=5.0, pen=50),
        dict(kind="hyd", thickness=5.0, wp=0.10, fc=0.30, sat=0.50, ksat=500.0, pen=100)]),
        iwc=dict(wc_type="Pct", method="Layer", depth_layer=[1, 2, 3], value=[50.0, 60.0, 70.0])),
    # F5 on a hand-written soil (the shrunk campaign case is regression-C05-restrictive-layer-roots.json)
    "C05-F5-maize-40pct-layer": base(soil=dict(type="custom", args={}, layers=[
        dict(kind="hyd", thickness=0.4, wp=0.10, fc=0.22, sat=0.41, ksat=1200.0, pen=100),
        dict(kind="hyd", thickness=5.0, wp=0.20, fc=0.35, sat=0.47, ksat=200.0, pen=40)]),
        iwc=dict(wc_type="Prop", method="Layer", depth_layer=[1, 2], value=["FC", "FC"])),
    "C04-F5-maize-40pct-layer": base(soil=dict(type="custom", args={}, layers=[
        dict(kind="hyd", thickness=0.4, wp=0.10, fc=0.22, sat=0.41, ksat=1200.0, pen=100),
        dict(kind="hyd", thickness=5.0, wp=0.20, fc=0.35, sat=0.47, ksat=200.0, pen=40)]),
        iwc=dict(wc_type="Prop", method="Layer", depth_layer=[1, 2], value=["FC", "FC"])),
}

os.makedirs(os.path.join(HERE, "replays"), exist_ok=True)
for name, case in CASES.items():
    prop = name.split("-")[0]
    with open(os.path.join(HERE, "replays", "regression-%s.json" % name), "w") as f:
        json.dump({"property": prop, "note": "regression case of a fixed finding (see known_findings.json)", "case": case}, f, indent=1)
print("wrote", len(CASES), "regression cases")

#!/bin/bash
# tools/seed_matrix.sh <seed id> <property> [tier] : run one check against one seeded change (scratch copy), print a one-line verdict
sid=$1; prop=$2; tier=${3:-quick}
cd /verif
r=$(SELFTEST_TAIL=400 ./selftest seeded/$sid/patch.diff $prop $tier 2>&1)
echo "$sid $prop $tier $(echo "$r" | tail -1) violations=$(echo "$r" | grep -c '^VIOLATION') :: $(echo "$r" | grep 'bucket=' | head -2 | cut -c1-220 | tr '\n' '|')"

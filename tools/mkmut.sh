#!/bin/bash
# tools/mkmut.sh <name> <file relative to /repo>   (stdin: python list of (old,new)) -> /verif/mutants/<name>.patch
set -e
cd /repo
[ -z "$(git status --porcelain)" ] || { echo "repo dirty"; exit 1; }
python3 /verif/tools/subst.py "$2"
git diff > /verif/mutants/$1.patch
git checkout -- .
echo "wrote mutants/$1.patch ($(wc -l < /verif/mutants/$1.patch) lines)"

#!/bin/bash
# tools/replay_seeds.sh : for every stored seeded change with a directed case, apply the change to a scratch copy of /repo and
# replay ONLY that case (./check <prop> --replay <file>); expect exit 1. One line per seed -> seeded/REPLAY.txt
cd "$(dirname "$0")/.."
: > seeded/REPLAY.txt
for d in seeded/C*-*/; do
  sid=$(basename $d)
  reg=$(python3 -c "import json;m=json.load(open('$d/meta.json'));print(m.get('directed_case',''), '|', m.get('status',''))")
  file=$(echo "$reg" | cut -d'|' -f1 | tr -d ' '); status=$(echo "$reg" | cut -d'|' -f2-)
  [ -z "$file" ] && { echo "$sid no-directed-case $status" >> seeded/REPLAY.txt; continue; }
  prop=$(basename $file | cut -d- -f2)
  scratch=$(mktemp -d /dev/shm/aqrp.XXXXXX)
  rsync -a --exclude .git --exclude docs --exclude '*.ipynb' /repo/ "$scratch/"
  ( cd "$scratch" && patch -p1 -s < /verif/$d/patch.diff ) || { echo "$sid PATCHFAIL" >> seeded/REPLAY.txt; rm -rf "$scratch"; continue; }
  VERIF_REPO="$scratch" VERIF_EVIDENCE_DIR="$scratch/.ev" VERIF_REPLAY_DIR="$scratch/.rp" ./check $prop --replay $file > "$scratch/.out" 2>&1; rc=$?
  echo "$sid $prop exit=$rc $(grep -c '^VIOLATION' $scratch/.out) ${status:+[$status]}" | cut -c1-200 >> seeded/REPLAY.txt
  rm -rf "$scratch"
done
echo DONE >> seeded/REPLAY.txt

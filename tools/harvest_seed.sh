#!/bin/bash
# tools/harvest_seed.sh <seed id> <property> [tier] [VERIF_SEED]
# Run <property>'s check against the seeded change (scratch copy). If it is caught, keep the smallest
# replay file that (a) fails on the changed tree and (b) passes on the unchanged tree as the directed
# sensitivity case replays/regression-<property>-seeded-<seed id>.json, so that detecting this change no
# longer depends on what the random campaign happens to draw. Prints a one-line verdict.
sid=$1; prop=$2; tier=${3:-quick}; vseed=${4:-1}
cd /verif
keep=$(mktemp -d /dev/shm/aqkeep.XXXXXX)
r=$(VERIF_SEED=$vseed SELFTEST_KEEP_REPLAYS=$keep SELFTEST_TAIL=400 ./selftest seeded/$sid/patch.diff $prop $tier 2>&1)
rc=$(echo "$r" | tail -1)
kept=""
if [ "$rc" = "exit=1" ]; then
  for f in $(ls -S -r $keep/$prop-*.json 2>/dev/null); do
    # must be quiet on the unchanged tree
    if VERIF_EVIDENCE_DIR=$keep/ev VERIF_REPLAY_DIR=$keep/rp ./check $prop --replay $f >/dev/null 2>&1; then
      cp $f replays/regression-$prop-seeded-$sid.json; kept=$(basename $f); break
    fi
  done
fi
echo "$sid $prop $tier seed=$vseed $rc kept=${kept:-none} violations=$(echo "$r" | grep -c '^VIOLATION') :: $(echo "$r" | grep 'bucket=' | head -2 | cut -c1-200 | tr '\n' '|')"
rm -rf $keep

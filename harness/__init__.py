"""Verification harness for aquacropos/aquacrop (property-based testing / fuzzing).

Importing this package puts the repository under test (VERIF_REPO, default /repo) first on
sys.path, so that `import aquacrop` resolves to the *current working tree*.
"""
import os
import sys
import warnings

REPO = os.environ.get("VERIF_REPO", "/repo")
VERIF = os.path.dirname(os.path.dirname(os.path.abspath(__file__)))

os.environ.setdefault("DEVELOPMENT", "True")
os.environ.setdefault("PYTHONDONTWRITEBYTECODE", "1")
sys.dont_write_bytecode = True
if REPO not in sys.path[:1]:
    sys.path.insert(0, REPO)
warnings.filterwarnings("ignore")

"""Hypothesis strategies producing JSON configurations (DESIGN.md section 3).

Every random choice is a Hypothesis draw, so cases shrink and replay.  The numpy RNG used for the
weather noise is seeded with a drawn integer that is part of the configuration.
"""
import datetime as dt

from hypothesis import strategies as st

from . import REPO  # noqa: F401
from .config import BUILTIN_SOILS, CAL_CROPS, CROPS, GDD_CROPS, SOIL_LAYERS, build_soil
from .config import PRISTINE_CROP_PARAMS as crop_params  # snapshot: generation never depends on catalogue state a run may have altered
from .refsoil import deepen, r2

# ------------------------------------------------------------------------------------------------
# small helpers
# ------------------------------------------------------------------------------------------------
def f2(lo, hi):
    """float with two decimals in [lo, hi]"""
    return st.integers(int(round(lo * 100)), int(round(hi * 100))).map(lambda v: v / 100.0)


def f1(lo, hi):
    return st.integers(int(round(lo * 10)), int(round(hi * 10))).map(lambda v: v / 10.0)


def weighted(draw, pairs):
    """pairs: [(value, weight)] -> draw one value (weights are small ints)."""
    pool = []
    for v, w in pairs:
        pool.extend([v] * int(w))
    return draw(st.sampled_from(pool))


def flag(draw, p):
    """True with probability ~p (p given in [0,1], resolution 0.05)."""
    k = int(round(p * 20))
    if k <= 0:
        return False
    if k >= 20:
        return True
    return draw(st.integers(0, 19)) < k


def mmdd(d):
    return "%02d/%02d" % (d.month, d.day)


def ymd(d):
    return "%04d/%02d/%02d" % (d.year, d.month, d.day)


DEFAULT_PROFILE = dict(
    crops=None,            # list of crop names or None (= all 37)
    p_gdd=0.3,             # probability of a thermal-time crop when crops is None
    p_scale=0.5,           # calendar crops: scale the calendar (shorter seasons)
    p_override=0.4,        # crop parameter overrides
    switches=False,        # draw option switches (ETadj, PlantMethod, GDDmethod, ...)
    seasons=(1, 2),        # number of planting dates inside the window
    p_off=0.5,
    rel_start=(("on", 5), ("before", 3), ("after", 1)),
    end_kind=(("after_harvest", 6), ("mid_season", 2), ("exact_year", 2)),
    p_harvest=0.2,         # explicit harvest_date
    p_custom_soil=0.35,
    p_dz=0.25,
    p_soil_args=0.4,
    low_ksat=False,        # bias custom layers to low conductivity
    pen=False,             # restrictive layers (penetrability < 100)
    irr=((0, 3), (1, 3), (2, 2), (3, 2), (4, 2), (5, 2)),
    p_eff=0.5,             # AppEff < 100
    p_cap=0.3,             # seasonal cap likely to bind
    p_fm=0.5, p_ffm=0.3, p_bunds=0.4, p_mulch=0.4,
    p_gw=0.3, gw_shallow=False, gw_kinds=None,
    p_co2=0.2, co2_kinds=None,
    iwc=(("FC", 3), ("WP", 2), ("SAT", 2), ("Pct", 2), ("Num", 1), ("Depth", 2)),
    storms=(0, 4), storm_mm=(50, 300),
    dry_spells=(0, 1), temp_events=(0, 1),
    climate="suit",        # 'suit' (temperature suited to crop) | 'any'
    rain=(("dry", 1), ("mid", 2), ("wet", 1)),
    max_days=1300,
    pad=(0, 40),
    start_years=(1985, 2030),
)


def profile(**kw):
    p = dict(DEFAULT_PROFILE)
    p.update(kw)
    return p


# ------------------------------------------------------------------------------------------------
# crop
# ------------------------------------------------------------------------------------------------
CAL_KEYS = ["EmergenceCD", "MaxRootingCD", "SenescenceCD", "MaturityCD", "HIstartCD", "FloweringCD", "YldFormCD"]


@st.composite
def crops(draw, P):
    if P["crops"] is not None:
        name = draw(st.sampled_from(list(P["crops"])))
    elif flag(draw, P["p_gdd"]):
        name = draw(st.sampled_from(GDD_CROPS))
    else:
        name = draw(st.sampled_from(CAL_CROPS))
    cp = crop_params[name]
    ov = {}
    cal = cp["CalendarType"] == 1
    if cal and flag(draw, P["p_scale"]):
        f = draw(f2(0.5, 1.1))
        # time-scale the whole calendar (and the per-day canopy coefficients the other way), which
        # keeps the documented order Emergence < HIstart < Senescence <= Maturity
        for k in CAL_KEYS:
            v = cp.get(k)
            if v is not None and v > 0:
                ov[k] = max(1, int(round(v * f)))
        ov["CGC_CD"] = cp["CGC_CD"] / f
        ov["CDC_CD"] = cp["CDC_CD"] / f
        if ov.get("HIstartCD", 0) + ov.get("YldFormCD", 0) > ov["MaturityCD"]:
            ov["YldFormCD"] = max(1, ov["MaturityCD"] - ov["HIstartCD"])
        if cp["CropType"] == 3 and ov.get("FloweringCD", 1) > ov["YldFormCD"]:
            ov["FloweringCD"] = ov["YldFormCD"]
    if flag(draw, P["p_override"]):
        which = draw(st.lists(st.sampled_from(["CCx", "Zmax", "Zmin", "WPy", "HI0", "dHI0", "thr", "Aer", "SxTopQ"]),
                              min_size=1, max_size=3, unique=True))
        if "CCx" in which:
            ov["CCx"] = draw(f2(0.5, 0.99))
        if "Zmin" in which:
            ov["Zmin"] = draw(f2(0.2, 0.5))
        if "Zmax" in which:
            zmin = ov.get("Zmin", cp["Zmin"])
            ov["Zmax"] = draw(f2(zmin + 0.1, 2.6))
        elif "Zmin" in which and ov["Zmin"] >= cp["Zmax"]:
            ov["Zmax"] = r2(ov["Zmin"] + 0.2)
        if "WPy" in which:
            ov["WPy"] = float(draw(st.integers(50, 100)))
        if "HI0" in which:
            ov["HI0"] = draw(f2(0.2, 0.85))
        if "dHI0" in which:
            ov["dHI0"] = float(draw(st.integers(0, 40)))
        if "thr" in which:
            up = draw(f2(0.05, 0.6))
            ov["p_up2"] = up
            ov["p_up1"] = draw(f2(0.05, 0.5))
            ov["p_lo1"] = draw(f2(min(0.95, ov["p_up1"] + 0.1), 1.0))
        if "Aer" in which:
            ov["Aer"] = float(draw(st.integers(0, 15)))
        if "SxTopQ" in which:
            ov["SxTopQ"] = draw(st.sampled_from([0.02, 0.048, 0.06]))
    if flag(draw, P.get("p_misc", 0.3)):
        # one or two of the less frequently changed documented crop parameters, moved by up to +-25 % (or inside their
        # documented range), so that code reading them is exercised with other than the catalogue values
        MISC = {"fshape_b": ("mul",), "PctZmin": ("rng", 50.0, 100.0), "GermThr": ("rng", 0.05, 0.5), "CCmin": ("rng", 0.02, 0.1),
                "HIini": ("set", 0.005, 0.01, 0.02, 0.03), "fsink": ("rng", 0.0, 1.0), "SeedSize": ("mul",), "PlantPop": ("mulint",), "Kcb": ("mul",),
                "fage": ("mul",), "WP": ("mul",), "a_HI": ("mul",), "b_HI": ("mul",), "dHI_pre": ("rng", 0.0, 10.0), "exc": ("mul",),
                "GDD_up": ("mul",), "SxBotQ": ("mul",), "LagAer": ("int", 1, 6), "beta": ("rng", 5.0, 20.0), "a_Tr": ("rng", 0.5, 2.0),
                "MaxFlowPct": ("rng", 20.0, 50.0)}
        for k in draw(st.lists(st.sampled_from(sorted(MISC)), min_size=1, max_size=2, unique=True)):
            spec = MISC[k]
            base = cp.get(k, None)
            if spec[0] in ("mul", "mulint"):
                if base is None or not isinstance(base, (int, float)) or base <= 0 or base > 1e6:
                    continue
                v = float(base) * draw(st.sampled_from([0.75, 0.9, 1.1, 1.25]))
                ov[k] = int(round(v)) if spec[0] == "mulint" else round(v, 6)
            elif spec[0] == "int":
                ov[k] = draw(st.integers(spec[1], spec[2]))
            elif spec[0] == "set":
                ov[k] = draw(st.sampled_from(list(spec[1:])))
            else:
                ov[k] = draw(f2(spec[1], spec[2])) if spec[2] <= 1.5 else float(draw(st.integers(int(spec[1]), int(spec[2]))))
    if P["switches"]:
        sw = draw(st.lists(st.sampled_from(
            ["ETadj", "PlantMethod", "GDDmethod", "Determinant", "PolHeatStress", "PolColdStress", "TrColdStress"]
            + (["SwitchGDD"] if (cal and P.get("switch_gdd", True)) else [])),
            min_size=0, max_size=3, unique=True))
        for k in sw:
            if k == "GDDmethod":
                ov[k] = draw(st.sampled_from([1, 2, 3]))
            elif k == "SwitchGDD":
                ov[k] = 1
                ov["SwitchGDDType"] = draw(st.sampled_from(["mean", "median"]))
            else:
                ov[k] = draw(st.sampled_from([0, 1]))
    return name, ov


def season_length_days(name, ov):
    """Upper estimate of the season length in days (for sizing the window)."""
    cp = crop_params[name]
    m = ov.get("MaturityCD", cp.get("MaturityCD"))
    if m is None or m <= 0:
        m = 150
    return int(m)


# ------------------------------------------------------------------------------------------------
# soil
# ------------------------------------------------------------------------------------------------
@st.composite
def hyd_layer(draw, P, pen_ok):
    wp = draw(f2(0.04, 0.34))
    fc = draw(f2(wp + 0.05, min(0.52, wp + 0.30)))
    sat = draw(f2(fc + 0.01, min(0.60, fc + 0.30)))
    if P["low_ksat"] and flag(draw, 0.6):
        ks = float(draw(st.sampled_from([1, 2, 5, 10, 15, 30])))
    else:
        ks = float(draw(st.sampled_from([1, 5, 15, 35, 100, 150, 225, 500, 1200, 2200, 3000])))
    pen = 100
    if pen_ok and P["pen"] and flag(draw, 0.7):
        pen = draw(st.sampled_from([0, 10, 40, 70, 95]))
    return dict(kind="hyd", wp=wp, fc=fc, sat=sat, ksat=ks, pen=pen)


@st.composite
def tex_layer(draw, P, pen_ok):
    # Saxton & Rawls (2006) calibration range; sand + clay <= 100
    sand = draw(st.integers(5, 88))
    clay = draw(st.integers(5, min(60, 100 - sand)))
    om = draw(f1(0.0, 5.0))
    pen = 100
    if pen_ok and P["pen"] and flag(draw, 0.5):
        pen = draw(st.sampled_from([0, 40, 70]))
    return dict(kind="tex", sand=float(sand), clay=float(clay), om=om, pen=pen)


@st.composite
def dz_lists(draw):
    kind = draw(st.sampled_from(["uniform", "mixed", "growing"]))
    n = draw(st.integers(3, 20))
    if kind == "uniform":
        v = draw(st.sampled_from([0.05, 0.1, 0.15, 0.2, 0.25, 0.3]))
        return [v] * n
    if kind == "growing":
        base = draw(st.sampled_from([0.05, 0.1]))
        return [r2(min(0.35, base + 0.05 * (i // 3))) for i in range(n)]
    return draw(st.lists(st.sampled_from([0.05, 0.1, 0.1, 0.15, 0.2, 0.25, 0.3, 0.35]), min_size=n, max_size=n))


@st.composite
def soils(draw, P, zmax):
    """Soil configuration.  zmax: maximum rooting depth of the crop (for the deepening rule)."""
    args = {}
    dz = None
    if flag(draw, P["p_dz"]):
        dz = draw(dz_lists())
        args["dz"] = dz
    if flag(draw, P["p_soil_args"]):
        which = draw(st.lists(st.sampled_from(["cn", "adj_cn", "calc_cn", "adj_rew", "z_cn", "z_germ", "evap", "fshape_cr", "z_res"]),
                              min_size=1, max_size=3, unique=True))
        if "cn" in which:
            args["cn"] = float(draw(st.integers(30, 95)))
        if "adj_cn" in which:
            args["adj_cn"] = draw(st.sampled_from([0, 1]))
        if "calc_cn" in which:
            args["calc_cn"] = draw(st.sampled_from([0, 1]))
        if "adj_rew" in which:
            args["adj_rew"] = draw(st.sampled_from([0, 1]))
            if args["adj_rew"] == 1:
                args["rew"] = float(draw(st.integers(2, 15)))
        if "z_cn" in which:
            args["z_cn"] = draw(f2(0.05, 0.6))
        if "z_germ" in which:
            args["z_germ"] = draw(f2(0.05, 0.6))
        if "evap" in which:
            args["evap_z_min"] = draw(f2(0.1, 0.2))
            args["evap_z_max"] = draw(f2(0.25, 0.4))
        if "fshape_cr" in which:
            args["fshape_cr"] = draw(st.sampled_from([8, 16, 24]))
        if flag(draw, 0.3):
            # expert parameters of the evaporation module, inside plausible ranges
            args["kex"] = draw(f2(0.9, 1.2))
            args["fwcc"] = float(draw(st.integers(30, 70)))
            args["f_evap"] = draw(st.integers(2, 6))
            args["f_wrel_exp"] = draw(f2(0.2, 0.6))
        if "z_res" in which:
            args["z_res"] = draw(f2(0.2, 2.5))   # documented constructor argument (depth of a restrictive layer)
    if flag(draw, P["p_custom_soil"]):
        base_dz = dz if dz is not None else [0.1] * 12
        nl = draw(st.integers(1, min(3, len(base_dz))))
        # layer boundaries on compartment boundaries, every layer has >= 1 compartment
        cuts = sorted(draw(st.lists(st.integers(1, len(base_dz) - 1), min_size=nl - 1, max_size=nl - 1, unique=True))) if nl > 1 else []
        bounds = [0] + cuts
        layers = []
        for li in range(nl):
            lay = draw(st.one_of(hyd_layer(P, li > 0), hyd_layer(P, li > 0), tex_layer(P, li > 0)))
            if li < nl - 1:
                thick = r2(sum(base_dz[bounds[li]:bounds[li + 1]]))
            elif flag(draw, 0.5):
                thick = r2(sum(base_dz[bounds[li]:]) + 4.0)   # reaches far below the profile
            else:
                thick = r2(sum(base_dz[bounds[li]:]))         # ends exactly at the bottom of the (un-deepened) profile
            lay["thickness"] = thick
            layers.append(lay)
        if nl > 1 and flag(draw, P.get("ksat_contrast", 0.3)):
            # sharp conductivity contrast between the surface layer and the layers below (either direction):
            # a slowly permeable crust over free-draining subsoil, or a perched water table
            lo = float(draw(st.sampled_from([1, 2, 5, 10])))
            hi = float(draw(st.sampled_from([500, 1200, 2200, 3000])))
            top_low = draw(st.booleans())
            for li, lay in enumerate(layers):
                if lay["kind"] == "hyd":
                    lay["ksat"] = (lo if top_low else hi) if li == 0 else (hi if top_low else lo)
        s = dict(type="custom", args=args, layers=layers)
    else:
        s = dict(type=draw(st.sampled_from(BUILTIN_SOILS)), args=args)
        if s["type"] == "ac_TunisLocal" and "dz" in args:
            del args["dz"]  # this soil ignores the dz argument
            dz = None
    # deepening may thicken the first compartment: keep the surface layer at least that thick
    base_dz = args.get("dz", [0.1] * 12 if s["type"] != "ac_TunisLocal" else [0.1] * 6 + [0.15] * 5 + [0.2])
    new = deepen(base_dz, zmax)
    if new[0] > max(0.1, base_dz[0]) + 1e-9:
        args["z_top"] = new[0]
    return s


def texture_ok(s):
    """Custom soils from texture: keep only soils whose derived values are physically ordered
    (documented input constraint th_wp < th_fc <= th_s, positive conductivity)."""
    if s["type"] != "custom" or not any(l["kind"] == "tex" for l in s["layers"]):
        return True
    try:
        soil = build_soil(s)
    except Exception:
        return False
    p = soil.profile.dropna(subset=["th_wp"])
    import numpy as np

    ok = bool(((p.th_wp > 0.005) & (p.th_wp < p.th_fc - 0.02) & (p.th_fc <= p.th_s - 0.005) & (p.th_s <= 0.65) & (p.Ksat > 0.5)).all())
    return ok and bool(np.isfinite(p[["th_wp", "th_fc", "th_s", "Ksat"]].values.astype(float)).all())


def layer_hydraulics(s):
    """[(wp, fc, sat)] per layer, from the built soil (precondition helper for Num water contents)."""
    soil = build_soil(s)
    p = soil.profile.dropna(subset=["th_wp"])
    out = []
    for lay in sorted(p.Layer.unique()):
        r = p[p.Layer == lay].iloc[0]
        out.append((float(r.th_wp), float(r.th_fc), float(r.th_s)))
    return out


# ------------------------------------------------------------------------------------------------
# initial water content
# ------------------------------------------------------------------------------------------------
@st.composite
def iwcs(draw, P, s, nl, zmax=None):
    r = draw(_iwcs(P, s, nl, zmax))
    if r["method"] == "Layer" and nl > 1 and draw(st.booleans()):
        # entries are assigned by layer NUMBER: the order in which the user lists them is irrelevant
        order = draw(st.permutations(list(range(nl))))
        r = dict(r, depth_layer=[r["depth_layer"][i] for i in order], value=[r["value"][i] for i in order])
    return r


@st.composite
def _iwcs(draw, P, s, nl, zmax=None):
    kind = weighted(draw, P["iwc"])
    layers = list(range(1, nl + 1))
    if kind in ("FC", "WP", "SAT"):
        vals = [kind] * nl
        if nl > 1 and flag(draw, 0.4):
            vals = [draw(st.sampled_from(["WP", "FC", "SAT"])) for _ in layers]
        return dict(wc_type="Prop", method="Layer", depth_layer=layers, value=vals)
    if kind == "Pct":
        return dict(wc_type="Pct", method="Layer", depth_layer=layers, value=[float(draw(st.integers(0, 100))) for _ in layers])
    hyd = layer_hydraulics(s)
    lo = max(h[0] for h in hyd)
    hi = min(h[2] for h in hyd)
    if kind == "Num":
        if lo + 0.01 >= hi:
            return dict(wc_type="Prop", method="Layer", depth_layer=layers, value=["FC"] * nl)
        return dict(wc_type="Num", method="Layer", depth_layer=layers, value=[draw(f2(lo, hi)) for _ in layers])
    # Depth: 1-5 increasing depth points
    npts = draw(st.integers(1, 5))
    depths = sorted(draw(st.lists(f2(0.0, 2.5), min_size=npts, max_size=npts, unique=True)))
    if zmax is not None and flag(draw, 0.35):
        # boundary values: a depth point exactly at the bottom of the profile the model will use (after deepening),
        # on a compartment boundary or on a compartment centre
        base_dz = s.get("args", {}).get("dz", [0.1] * 12 if s["type"] != "ac_TunisLocal" else [0.1] * 6 + [0.15] * 5 + [0.2])
        new = deepen(base_dz, zmax)
        bots = [r2(sum(new[:i + 1])) for i in range(len(new))]
        special = [bots[-1], bots[-1], r2(sum(base_dz)), draw(st.sampled_from(bots)), r2(draw(st.sampled_from(bots)) - new[0] / 2.0)]
        v = draw(st.sampled_from(special))
        if v > 0 and v not in depths:
            depths = sorted(depths[:-1] + [v]) if len(depths) > 1 and draw(st.booleans()) else sorted(depths + [v])
    t = draw(st.sampled_from(["Prop", "Pct", "Num"]))
    if t == "Num" and lo + 0.01 >= hi:
        t = "Prop"
    if t == "Prop":
        vals = [draw(st.sampled_from(["WP", "FC", "SAT"])) for _ in depths]
    elif t == "Pct":
        vals = [float(draw(st.integers(0, 100))) for _ in depths]
    else:
        vals = [draw(f2(lo, hi)) for _ in depths]
    return dict(wc_type=t, method="Depth", depth_layer=depths, value=vals)


# ------------------------------------------------------------------------------------------------
# management
# ------------------------------------------------------------------------------------------------
@st.composite
def irrigations(draw, P, start, ndays, plantings):
    m = weighted(draw, P["irr"])
    r = dict(method=m)
    if m == 0 and not flag(draw, 0.3):
        return r
    if flag(draw, P["p_eff"]):
        r["AppEff"] = float(draw(st.integers(30, 100)))
    if flag(draw, 0.4):
        r["WetSurf"] = float(draw(st.integers(10, 100)))
    if flag(draw, 0.6):
        r["MaxIrr"] = float(draw(st.sampled_from([0, 3, 5, 10, 25, 40, 60, 120])))
    if flag(draw, P["p_cap"]):
        r["MaxIrrSeason"] = float(draw(st.sampled_from([0, 10, 30, 60, 100, 200, 400])))
    elif flag(draw, 0.2):
        r["MaxIrrSeason"] = float(draw(st.sampled_from([1000, 10000])))
    if m == 1:
        r["SMT"] = [float(draw(st.sampled_from([0, 20, 40, 50, 60, 70, 80, 90, 100]))) for _ in range(4)]
    elif m == 2:
        r["IrrInterval"] = draw(st.integers(1, 30))
    elif m == 3:
        n = draw(st.integers(0, 30))
        # dates inside and outside seasons and outside the window, unique
        offs = draw(st.lists(st.integers(-40, ndays + 40), min_size=n, max_size=n, unique=True))
        near = []
        for p in plantings:
            k = draw(st.integers(0, 6))
            near += draw(st.lists(st.integers(0, 150), min_size=k, max_size=k, unique=True).map(
                lambda xs, p=p: [(p - start).days + x for x in xs]))
        days = sorted(set(offs + near))
        r["schedule"] = [[(start + dt.timedelta(days=d)).strftime("%Y-%m-%d"), float(draw(st.sampled_from([0, 5, 10, 20, 30, 45, 80])))] for d in days]
    elif m == 4:
        r["NetIrrSMT"] = float(draw(st.sampled_from([10, 30, 50, 70, 80, 100])))
    elif m == 5:
        r["depth"] = float(draw(st.sampled_from([0, 1, 2, 5, 10, 15, 40])))
    return r


@st.composite
def field_mngts(draw, P, cn):
    f = {}
    if flag(draw, P["p_mulch"]):
        f["mulches"] = True
        if not flag(draw, 0.3):     # else: the constructor defaults (50 %, 0.5) by omission
            f["mulch_pct"] = float(draw(st.sampled_from([0, 20, 50, 80, 100])))
            f["f_mulch"] = draw(st.sampled_from([0.0, 0.3, 0.5, 0.8, 1.0]))
    if flag(draw, P["p_bunds"]):
        f["bunds"] = True
        f["z_bund"] = draw(st.sampled_from([0.0, 0.01, 0.03, 0.05, 0.1, 0.2, 0.4]))
        f["bund_water"] = float(draw(st.sampled_from([0, 0, 5, 20, 60, 150, 500])))
    if flag(draw, 0.15):
        f["sr_inhb"] = True
    if flag(draw, 0.3):
        f["curve_number_adj"] = True
        hi = int((100.0 / cn - 1.0) * 100.0)  # keeps the effective curve number <= 100
        f["curve_number_adj_pct"] = float(draw(st.integers(-50, max(-50, min(40, hi)))))
    return f


@st.composite
def groundwaters(draw, P, start, ndays):
    kind = draw(st.sampled_from(list(P.get("gw_kinds") or ["const", "const", "Constant", "Variable"])))
    if P["gw_shallow"]:
        depth = st.one_of(f2(0.1, 3.0), f2(0.1, 3.0), f2(3.0, 8.0), f2(0.01, 0.12))
    else:
        depth = st.one_of(f2(0.1, 3.0), f2(1.0, 6.0), f2(6.0, 60.0), f2(0.01, 0.3))
    if kind == "const":
        return dict(method="Constant", dates=[start.strftime("%Y/%m/%d")], values=[draw(depth)])
    g = draw(_groundwater_series(P, start, ndays, kind, depth))
    # the same observation dates in another notation (unpadded / ISO / month-first strings, Timestamps)
    fmt = draw(st.sampled_from(["padded", "padded", "unpadded", "unpadded", "iso", "mdy", "ts"]))
    if fmt != "padded":
        g["datefmt"] = fmt
    return g


@st.composite
def _groundwater_series(draw, P, start, ndays, kind, depth):
    n = draw(st.integers(2, 6))
    if kind == "Constant" and flag(draw, 0.4):
        # step-function readings may lie anywhere, also before the start / after the end of the window
        offs = sorted(draw(st.lists(st.integers(-500, ndays + 300), min_size=n, max_size=n, unique=True)))
        dates = [start + dt.timedelta(days=o) for o in offs]
        return dict(method=kind, dates=[d.strftime("%Y/%m/%d") for d in dates], values=[draw(depth) for _ in dates])
    offs = sorted(draw(st.lists(st.integers(1, max(1, ndays - 1)), min_size=n - 1, max_size=n - 1, unique=True)))
    dates = [start] + [start + dt.timedelta(days=o) for o in offs]
    return dict(method=kind, dates=[d.strftime("%Y/%m/%d") for d in dates], values=[draw(depth) for _ in dates])


@st.composite
def co2s(draw, y0, y1, kinds=None):
    k = draw(st.sampled_from(list(kinds or ["const", "const_default", "table"])))
    ref = {"ref": float(draw(st.sampled_from([330.0, 400.0, 450.0])))} if draw(st.integers(0, 4)) == 0 else {}
    if k == "const":
        # the crop-coefficient correction is linear in (C - ref) / (550 - ref) and reaches zero 20 such units above the
        # reference: with a user-defined reference the concentration stays within half of that span (with the default
        # reference 369.41 ppm the whole documented range 250..2500 ppm does)
        hi = 2500 if not ref else int(min(2500.0, ref["ref"] + 10.0 * (550.0 - ref["ref"])))
        return dict({"constant": float(draw(st.integers(250, hi)))}, **ref)
    if k == "const_default":
        return dict({"constant_default": True}, **ref)
    base = float(draw(st.integers(280, 900)))
    slope = draw(f1(-2.0, 25.0))
    step = draw(st.sampled_from([1, 5, 5, 10]))       # yearly, 5-yearly or decadal entries (interpolated in between)
    first = (y0 - 1) - ((y0 - 1) % step) - (step if step > 1 else 0)
    return dict({"table": [[y, max(250.0, base + slope * (y - y0))] for y in range(first, y1 + 2 * step + 1, step)]}, **ref)


# ------------------------------------------------------------------------------------------------
# window + weather
# ------------------------------------------------------------------------------------------------
BUILTIN_CN = {"Clay": 77, "ClayLoam": 72, "Default": 61, "Loam": 61, "LoamySand": 46, "Sand": 46, "SandyClay": 77,
              "SandyClayLoam": 72, "SandyLoam": 46, "Silt": 61, "SiltClayLoam": 72, "SiltLoam": 61, "SiltClay": 72,
              "Paddy": 77, "ac_TunisLocal": 72}


def next_planting(d, pm, pd_):
    p = dt.date(d.year, pm, pd_)
    return p if p >= d else dt.date(d.year + 1, pm, pd_)


@st.composite
def configs(draw, P=None):
    P = P or DEFAULT_PROFILE
    name, ov = draw(crops(P))
    cp = crop_params[name]
    slen = season_length_days(name, ov)
    pm = draw(st.integers(1, 12))
    pd_ = draw(st.integers(1, 28 if pm == 2 else 30 if pm in (4, 6, 9, 11) else 31))
    y0 = draw(st.integers(*P["start_years"]))
    plant0 = dt.date(y0, pm, pd_)
    rel = weighted(draw, P["rel_start"])
    if rel == "on":
        start = plant0
    elif rel == "before":
        start = plant0 - dt.timedelta(days=draw(st.integers(1, 40)))
    else:
        start = plant0 + dt.timedelta(days=draw(st.integers(1, 200)))
        plant0 = dt.date(y0 + 1, pm, pd_)
    nseas = draw(st.integers(*P["seasons"]))
    last_plant = dt.date(plant0.year + nseas - 1, pm, pd_)
    ek = weighted(draw, P["end_kind"])
    if ek == "after_harvest":
        end = last_plant + dt.timedelta(days=min(360, slen + 31 + draw(st.integers(1, 20))))
    elif ek == "mid_season":
        end = last_plant + dt.timedelta(days=draw(st.integers(2, max(3, slen - 1))))
    else:
        end = dt.date(last_plant.year + 1, pm, pd_) - dt.timedelta(days=draw(st.integers(0, 1)))
    if (end - start).days < 10:
        end = start + dt.timedelta(days=10)
    if (end - start).days > P["max_days"]:
        end = start + dt.timedelta(days=P["max_days"])
    ndays = (end - start).days + 1
    plantings = [dt.date(plant0.year + k, pm, pd_) for k in range(nseas) if dt.date(plant0.year + k, pm, pd_) <= end]

    crop = dict(name=name, planting="%02d/%02d" % (pm, pd_), harvest=None, overrides=ov)
    if flag(draw, P["p_harvest"]):
        if slen >= 300 and flag(draw, 0.3):
            crop["harvest"] = crop["planting"]      # back-to-back seasons: latest harvest on the next planting day
        else:
            h = dt.date(2001, pm, pd_) + dt.timedelta(days=draw(st.integers(max(20, slen // 3), min(364, slen + 40))))
            if not (h.month == 2 and h.day == 29):
                crop["harvest"] = mmdd(h)

    zmax = ov.get("Zmax", cp["Zmax"])
    s = draw(soils(P, zmax).filter(texture_ok))
    from .config import n_layers

    nl = n_layers(s)
    cfg = dict(start=ymd(start), end=ymd(end), off_season=flag(draw, P["p_off"]), crop=crop, soil=s)
    cfg["iwc"] = draw(iwcs(P, s, nl, zmax))
    cfg["irr"] = draw(irrigations(P, start, ndays, plantings))
    if s["type"] == "custom":
        cn = 77.0 if s["args"].get("calc_cn") == 1 else float(s["args"].get("cn", 61.0))
    else:  # built-in soils fix their own curve number
        cn = BUILTIN_CN[s["type"]]
    cfg["fm"] = draw(field_mngts(P, cn)) if flag(draw, P["p_fm"]) else None
    cfg["ffm"] = draw(field_mngts(P, cn)) if flag(draw, P["p_ffm"]) else None
    cfg["gw"] = draw(groundwaters(P, start, ndays)) if flag(draw, P["p_gw"]) else None
    cfg["co2"] = draw(co2s(start.year, end.year, P.get("co2_kinds"))) if flag(draw, P["p_co2"]) else None

    # ---- weather -------------------------------------------------------------------------------
    pad_b = draw(st.integers(*P["pad"]))
    pad_a = draw(st.integers(*P["pad"]))
    first = start - dt.timedelta(days=pad_b)
    days = ndays + pad_b + pad_a
    tb, tu = float(ov.get("Tbase", cp["Tbase"])), float(ov.get("Tupp", cp["Tupp"]))
    if P["climate"] == "suit":
        tmean = r2(tb + draw(f1(7.0, 16.0)))
        amp = draw(f1(0.0, 8.0))
        # warm season centred ~70 days after planting
        phase = (plant0.timetuple().tm_yday + 70 - 200) % 365
    else:
        tmean = draw(f1(2.0, 32.0))
        amp = draw(f1(0.0, 15.0))
        phase = draw(st.integers(0, 364))
    rk = weighted(draw, P["rain"])
    rain_p, rain_mm = {"dry": (0.04, 4.0), "mid": (0.25, 9.0), "wet": (0.55, 18.0)}[rk]
    w = dict(kind="synth", first=first.strftime("%Y-%m-%d"), days=days, tmean=tmean, amp=amp, phase=phase,
             dtr=draw(f1(4.0, 16.0)), et0=draw(f1(1.0, 9.0)), rain_p=rain_p, rain_mm=rain_mm,
             noise=draw(st.integers(0, 10_000)), events=[])
    if flag(draw, P.get("p_lattice", 0.15)):
        w["lattice"] = True
    ev = w["events"]
    for _ in range(draw(st.integers(*P["storms"]))):
        # storms mostly inside seasons
        if plantings and flag(draw, 0.7):
            p = draw(st.sampled_from(plantings))
            day = (p - first).days + draw(st.integers(0, slen))
        else:
            day = draw(st.integers(0, days - 1))
        ev.append(dict(type="storm", day=day, mm=float(draw(st.integers(*P["storm_mm"])))))
    for _ in range(draw(st.integers(*P["dry_spells"]))):
        ev.append(dict(type="dry", day=draw(st.integers(0, days - 1)), len=draw(st.integers(20, 400))))
    for _ in range(draw(st.integers(*P["temp_events"]))):
        p = draw(st.sampled_from(plantings)) if plantings else start
        ev.append(dict(type="temp", day=(p - first).days + draw(st.integers(0, slen)), len=draw(st.integers(3, 40)),
                       delta=float(draw(st.sampled_from([-18, -10, -5, 6, 12, 20])))))
    if flag(draw, 0.15):
        ev.append(dict(type="et0", day=draw(st.integers(0, days - 1)), len=draw(st.integers(1, 30)), value=draw(f1(10.0, 20.0))))
    cfg["weather"] = w
    # the input objects may have been used by earlier model initialisations (0, 1 or 2 of them)
    r = draw(st.integers(0, 9))
    if r >= 8 and P.get("reuse", True):
        cfg["reuse"] = r - 7
    # objects merely CONSTRUCTED earlier in the same process (a user building several configurations):
    # the same catalogue crop with an enlarged envelope, some catalogue soil, another strategy. They are
    # never handed to the model and must not influence it (shared catalogue entries, mutable defaults)
    if flag(draw, P.get("p_prior", 0.3)):
        cfg["prior"] = draw(priors(cfg))
    return cfg


PRIOR_BUMPS = {
    "Zmax": lambda v: round(float(v) + 0.6, 2), "Zmin": lambda v: round(float(v) + 0.15, 2),
    "CCx": lambda v: min(0.99, round(float(v) + 0.07, 2)), "HI0": lambda v: round(min(0.95, float(v) * 1.25), 3),
    "dHI0": lambda v: float(v) + 15.0, "WP": lambda v: float(v) + 6.0, "Tbase": lambda v: float(v) - 3.0,
    "Tupp": lambda v: float(v) + 5.0, "Kcb": lambda v: round(float(v) + 0.2, 2), "PlantPop": lambda v: int(float(v) * 2),
    "Aer": lambda v: float(v) + 5.0, "exc": lambda v: float(v) + 20.0,
}


@st.composite
def priors(draw, cfg):
    out = []
    name = cfg["crop"]["name"]
    cp = crop_params[name]
    keys = sorted(k for k in PRIOR_BUMPS if k in cp)
    chosen = draw(st.lists(st.sampled_from(keys), min_size=1, max_size=5, unique=True))
    out.append({"crop": {"name": name, "planting": cfg["crop"]["planting"], "harvest": None,
                         "overrides": {k: PRIOR_BUMPS[k](cp[k]) for k in sorted(chosen)}}})
    if draw(st.booleans()):
        t = draw(st.sampled_from(BUILTIN_SOILS))
        args = {}
        if draw(st.booleans()):
            args["dz"] = draw(dz_lists())
        out.append({"soil": {"type": t, "args": args}})
    if draw(st.integers(0, 3)) == 0:
        out.append({"irr": {"method": 1, "SMT": [30.0, 40.0, 50.0, 60.0], "MaxIrr": 15.0, "MaxIrrSeason": 90.0}})
    return out

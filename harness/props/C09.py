"""C09 -- step-wise execution equals one uninterrupted run."""
import copy
import itertools

import numpy as np
from hypothesis import strategies as st

from .. import gen
from ..config import cfg_hash, describe, make_model
from ..engine import Result
from ..observe import classify_rejection, compare_outputs, init_guard, outputs_of, run_plain, _table
from .common import cfg_simplifications, crash_bucket, is_F16c

ID = "C09"
RULE = ("(a) exhaustive: every composition of an N-day run into positive step counts (N=10 -> 512 histories per configuration in "
        "quick, N=13 -> 4096 in thorough) on 3 fixed configurations (rainfed, threshold irrigation with groundwater, "
        "net irrigation over a harvest with the off-season simulated); (b) Hypothesis: generated configurations (1-3 seasons) x "
        "generated histories of run_model(num_steps=k, initialize_model=False) calls, k in 1..400 incl. overshooting, interleaved "
        "with calls of all public getters and with a BYSTANDER (a second model of the same configuration built from its own "
        "objects, initialised and advanced between the calls: the state of a run lives on its model object). After every call: the model must report itself unfinished and return no summary until "
        "the reference's last step, and the rows written so far must equal the reference rows; at the end all tables, the summary "
        "and the completion status must equal run_model(till_termination=True) on a fresh twin. (c) the same property as a "
        "Hypothesis RuleBasedStateMachine (rules step_small / step_medium / step_large / query_getters, the comparison with the "
        "reference run as @invariant after every step; 48 machine runs in quick, 800 in thorough). One evaluation per history. "
        "Non-trivial history: >=3 calls and (crosses a season boundary or overshoots the end); distinct = (configuration, history).")
ASSUMPTIONS = [
    "rows not yet written are recognised as all-zero rows of the pre-allocated output arrays",
    "process_outputs=True is outside the property (it converts the tables mid-run)",
    "a history ends when the model reports termination (calls after termination are outside the property)",
]
BUDGET = {"quick": 160, "thorough": 2500}
EXHAUSTIVE = {"quick": False, "thorough": False}
EXHAUSTIVE_NOTE = "sub-space (a) is enumerated completely: all 2^(N-1) compositions for N=10 (quick) / N=13 (thorough) on 3 configurations; sub-space (b) is sampled"
PROFILE = gen.profile(seasons=(1, 3), max_days=800, p_gdd=0.3, p_custom_soil=0.2, p_gw=0.2)


def _w(first, days, **kw):
    d = dict(kind="synth", first=first, days=days, tmean=22.0, amp=5.0, phase=0, dtr=10.0, et0=5.0, rain_p=0.3, rain_mm=9.0, noise=7, events=[])
    d.update(kw)
    return d


FIXED = [
    dict(start="2001/06/10", end="2001/06/20", off_season=False, crop=dict(name="Maize", planting="06/10", harvest=None, overrides={}),
         soil=dict(type="SandyLoam", args={}), iwc=None, irr=dict(method=0), fm=None, ffm=None, gw=None, co2=None,
         weather=_w("2001-04-20", 120)),
    dict(start="2001/05/01", end="2001/05/11", off_season=False, crop=dict(name="Wheat", planting="05/01", harvest=None, overrides={}),
         soil=dict(type="ClayLoam", args={}), iwc=dict(wc_type="Prop", method="Layer", depth_layer=[1], value=["WP"]),
         irr=dict(method=1, SMT=[80.0, 70.0, 60.0, 50.0], AppEff=80.0), fm=dict(mulches=True, mulch_pct=60.0, f_mulch=0.5), ffm=None,
         gw=dict(method="Constant", dates=["2001/05/01"], values=[1.1]), co2=None, weather=_w("2001-04-20", 300, rain_p=0.5)),
    # short-season crop: the harvest (calendar scaled) falls inside the 10/13-day window, off-season simulated afterwards
    dict(start="2001/05/01", end="2001/05/11", off_season=True,
         crop=dict(name="Tomato", planting="05/01", harvest="05/07", overrides={}),
         soil=dict(type="Loam", args={}), iwc=dict(wc_type="Prop", method="Layer", depth_layer=[1], value=["WP"]),
         irr=dict(method=4, NetIrrSMT=70.0), fm=dict(bunds=True, z_bund=0.05, bund_water=20.0), ffm=None, gw=None, co2=None,
         weather=_w("2001-04-20", 300, rain_p=0.6, rain_mm=20.0)),
]


def compositions(n):
    for bits in itertools.product((0, 1), repeat=n - 1):
        parts, cur = [], 1
        for b in bits:
            if b:
                parts.append(cur)
                cur = 1
            else:
                cur += 1
        parts.append(cur)
        yield parts


@st.composite
def histories(draw):
    cfg = draw(gen.configs(PROFILE))
    n = draw(st.integers(1, 40))
    ops = []
    for _ in range(n):
        kind = draw(st.sampled_from(["s", "s", "s", "s", "m", "m", "l", "l", "q", "q", "b"]))
        if kind == "s":
            ops.append(draw(st.integers(1, 5)))
        elif kind == "m":
            ops.append(draw(st.integers(6, 80)))
        elif kind == "l":
            ops.append(draw(st.integers(81, 400)))
        elif kind == "b":
            ops.append(-1)  # another model of the same configuration is created / advanced in between (bystander)
        else:
            ops.append(0)  # query all getters
    if not any(k > 0 for k in ops):
        ops.append(1)
    return dict(cfg=cfg, ops=ops)


def strategy(tier):
    return histories()


def fixed_cases(tier):
    n = 10 if tier == "quick" else 13
    out = []
    for ci, cfg in enumerate(FIXED):
        import datetime as dt

        c = copy.deepcopy(cfg)
        s = dt.datetime.strptime(c["start"], "%Y/%m/%d")
        c["end"] = (s + dt.timedelta(days=n)).strftime("%Y/%m/%d")
        comps = list(compositions(n))
        # one case = a block of 64 histories on one configuration (keeps the reference run shared)
        for b in range(0, len(comps), 64):
            out.append(("exh-%d-%d" % (ci, b), dict(cfg=c, ops_block=comps[b:b + 64])))
    return out


_REF_CACHE = {}


def reference(cfg):
    h = cfg_hash(cfg)
    if h not in _REF_CACHE:
        if len(_REF_CACHE) > 8:
            _REF_CACHE.clear()
        m = run_plain(cfg)
        _REF_CACHE[h] = (outputs_of(m), m.get_additional_information()["has_model_finished"])
    return _REF_CACHE[h]


def run_history(cfg, ops, ref, res, tag=""):
    """Drive one history; returns (calls, crossed_season, overshoot)."""
    (rf, rs, rg, rsm), _ = ref
    nref = int((rf != 0).any(axis=1).sum())
    m = make_model(cfg)
    with init_guard():
        m._initialize()
    calls = 0
    done = False
    crossed = overshoot = False
    pos = 0
    written = 0
    seasons_seen = set()
    bystander = None
    while not done:
        k = ops[pos % len(ops)]
        pos += 1
        if pos > 5000:
            res.fail("no_termination", tag + "history of %d calls did not reach termination" % pos)
            return calls, crossed, overshoot
        if k == -1:
            # the state of a run lives on its model object: a second model built from its own objects and advanced
            # between two calls must not matter
            if bystander is None or bystander._clock_struct.model_is_finished:
                bystander = make_model(cfg)
                with init_guard():
                    bystander._initialize()
            else:
                bystander.run_model(num_steps=97, initialize_model=False)
            continue
        if k == 0:
            if calls == 0:
                continue  # getters raise before the first run call (documented)
            m.get_water_flux(); m.get_water_storage(); m.get_crop_growth(); m.get_additional_information(); m.get_simulation_results()
            continue
        before = int(m._clock_struct.time_step_counter)
        m.run_model(num_steps=k, initialize_model=False)
        calls += 1
        info = m.get_additional_information()
        done = bool(m._clock_struct.model_is_finished)
        a = _table(m.get_water_flux())
        mask = (a != 0).any(axis=1)
        nw = int(mask.sum())
        if nw - written > k:
            res.fail("too_many_steps", tag + "call %d with num_steps=%d advanced %d days" % (calls, k, nw - written))
            return calls, crossed, overshoot
        if not done and nw - written != k:
            res.fail("too_few_steps", tag + "call %d with num_steps=%d advanced %d days and the model is not finished" % (calls, k, nw - written))
            return calls, crossed, overshoot
        if done and nw - written < k:
            overshoot = True
        written = nw
        s = set(np.unique(a[mask][:, 1]).astype(int).tolist())
        if len(s | seasons_seen) > len(seasons_seen) and seasons_seen:
            crossed = True
        seasons_seen |= s
        # rows written so far equal the reference rows
        for name, tab, reft in (("water_flux", a, rf), ("water_storage", _table(m.get_water_storage()), rs), ("crop_growth", _table(m.get_crop_growth()), rg)):
            if tab.shape != reft.shape or not np.array_equal(tab[mask], reft[mask], equal_nan=True):
                res.fail("prefix_differs", tag + "after call %d (num_steps=%d, %d days written): %s rows differ from the uninterrupted run" % (calls, k, nw, name))
                return calls, crossed, overshoot
        if not done:
            if info["has_model_finished"] is not False or m.get_simulation_results() is not False:
                res.fail("finished_too_early", tag + "after call %d (%d of %d days): model reports finished=%r / returns a summary" % (
                    calls, nw, nref, info["has_model_finished"]))
                return calls, crossed, overshoot
    out = outputs_of(m)
    d = compare_outputs(out, (rf, rs, rg, rsm))
    if d:
        res.fail("final_differs", tag + "final outputs differ from the uninterrupted run: %s" % d)
    if m.get_additional_information()["has_model_finished"] is not True:
        res.fail("not_finished_at_end", tag + "model reached termination but reports has_model_finished=%r" % m.get_additional_information()["has_model_finished"])
    if m.get_simulation_results() is False:
        res.fail("no_summary_at_end", tag + "model reached termination but returns no summary")
    return calls, crossed, overshoot


def evaluate(case):
    res = Result()
    cfg = case["cfg"]
    res.sample = {"cfg": describe(cfg), "hash": cfg_hash(cfg)}
    try:
        ref = reference(cfg)
    except Exception as e:
        lab = classify_rejection(e)
        if lab:
            res.outcome = "rejected"
            res.labels.add("rejected:" + lab)
        elif is_F16c(e):
            res.outcome = "known"
            res.exclude("F16c")
        else:
            res.outcome = "crash"
            res.labels.add(crash_bucket(e))
        return res
    res.keys = set()
    if "ops_block" in case:
        res.evals = 0
        for ops in case["ops_block"]:
            try:
                calls, crossed, over = run_history(cfg, ops, ref, res, tag="history %s: " % (ops,))
            except Exception as e:
                res.fail("stepwise_raises", "history %s raises %s: %s" % (ops, type(e).__name__, str(e)[:120]))
                continue
            res.evals += 1
            if calls >= 3:
                res.keys.add("%s/%s" % (res.sample["hash"], "-".join(map(str, ops))))
        res.labels.add("exhaustive_block")
        res.sample["histories_in_block"] = len(case["ops_block"])
        res.sample["example_history"] = case["ops_block"][len(case["ops_block"]) // 2]
        res.nontrivial = bool(res.keys)
        return res
    ops = case["ops"]
    try:
        calls, crossed, over = run_history(cfg, ops, ref, res)
    except Exception as e:
        res.fail("stepwise_raises", "history %s raises %s: %s" % (ops[:12], type(e).__name__, str(e)[:120]))
        return res
    res.sample["ops"] = ops[:20]
    res.sample["calls"] = calls
    if crossed:
        res.labels.add("crosses_season_boundary")
    if over:
        res.labels.add("overshoots_end")
    if 0 in ops:
        res.labels.add("getters_interleaved")
    if -1 in ops:
        res.labels.add("bystander_model_interleaved")
    res.labels.add("calls>=10" if calls >= 10 else "calls<10")
    if calls >= 3 and (crossed or over):
        res.keys.add("%s/%s" % (res.sample["hash"], "-".join(map(str, ops))))
    res.nontrivial = bool(res.keys)
    return res


def simplifications(case):
    if "ops" not in case:
        return
    ops = case["ops"]
    for i in range(len(ops)):
        if len(ops) > 1 and any(k > 0 for k in ops[:i] + ops[i + 1:]):
            yield dict(cfg=case["cfg"], ops=ops[:i] + ops[i + 1:])
    for i, k in enumerate(ops):
        if k > 1:
            yield dict(cfg=case["cfg"], ops=ops[:i] + [max(1, k // 2)] + ops[i + 1:])
    for c in cfg_simplifications(case["cfg"]):
        yield dict(cfg=c, ops=ops)


# ------------------------------------------------------------------------------------------------
# (c) the same property as a Hypothesis rule-based state machine (stateful mode): rules are the API
#     operations, the invariant runs after every step, one machine run is one history
# ------------------------------------------------------------------------------------------------
MACHINE_BUDGET = {"quick": 48, "thorough": 800}


def machine(tier, record):
    """Return a RuleBasedStateMachine class; `record(case, result)` receives one Result per finished history."""
    from hypothesis import strategies as st
    from hypothesis.stateful import RuleBasedStateMachine, initialize, invariant, precondition, rule

    class StepwiseEqualsUninterrupted(RuleBasedStateMachine):
        def __init__(self):
            super().__init__()
            self.cfg = None
            self.res = Result()
            self.m = None
            self.ref = None
            self.ops = []
            self.calls = 0
            self.written = 0
            self.done = False
            self.crossed = self.over = False
            self.seasons = set()
            self.dead = False   # history abandoned (rejected configuration or a recorded failure)

        @initialize(cfg=gen.configs(PROFILE))
        def build(self, cfg):
            self.cfg = cfg
            self.res.sample = {"cfg": describe(cfg), "hash": cfg_hash(cfg), "mode": "state machine"}
            try:
                self.ref = reference(cfg)
            except Exception as e:
                lab = classify_rejection(e)
                self.res.outcome = "rejected" if lab else ("known" if is_F16c(e) else "crash")
                if is_F16c(e):
                    self.res.exclude("F16c")
                self.res.labels.add("rejected:" + lab if lab else crash_bucket(e))
                self.dead = True
                return
            self.m = make_model(cfg)
            with init_guard():
                self.m._initialize()

        def _step(self, k):
            if self.dead or self.done:
                return
            self.ops.append(k)
            m = self.m
            (rf, rs, rg, rsm), _ = self.ref
            try:
                m.run_model(num_steps=k, initialize_model=False)
            except Exception as e:
                self.res.fail("stepwise_raises", "history %s raises %s: %s" % (self.ops[-12:], type(e).__name__, str(e)[:120]))
                self.dead = True
                return
            self.calls += 1
            self.done = bool(m._clock_struct.model_is_finished)
            a = _table(m.get_water_flux())
            mask = (a != 0).any(axis=1)
            nw = int(mask.sum())
            if nw - self.written > k or (not self.done and nw - self.written != k):
                self.res.fail("wrong_number_of_steps", "call %d with num_steps=%d advanced %d days (finished=%s)" % (self.calls, k, nw - self.written, self.done))
                self.dead = True
                return
            if self.done and nw - self.written < k:
                self.over = True
            self.written = nw
            s = set(np.unique(a[mask][:, 1]).astype(int).tolist())
            if self.seasons and len(s | self.seasons) > len(self.seasons):
                self.crossed = True
            self.seasons |= s

        @rule(k=st.integers(1, 5))
        def step_small(self, k):
            self._step(k)

        @rule(k=st.integers(6, 80))
        def step_medium(self, k):
            self._step(k)

        @rule(k=st.integers(81, 400))
        def step_large(self, k):
            self._step(k)

        @precondition(lambda self: self.calls > 0 and not self.dead)
        @rule()
        def query_getters(self):
            m = self.m
            m.get_water_flux(); m.get_water_storage(); m.get_crop_growth(); m.get_additional_information(); m.get_simulation_results()
            self.ops.append(0)

        @invariant()
        def agrees_with_uninterrupted_run(self):
            if self.dead or self.m is None or self.calls == 0:
                return
            m = self.m
            (rf, rs, rg, rsm), _ = self.ref
            for name, tab, reft in (("water_flux", _table(m.get_water_flux()), rf), ("water_storage", _table(m.get_water_storage()), rs),
                                    ("crop_growth", _table(m.get_crop_growth()), rg)):
                mask = (tab != 0).any(axis=1)
                if tab.shape != reft.shape or not np.array_equal(tab[mask], reft[mask], equal_nan=True):
                    self.res.fail("prefix_differs", "after history %s: %s rows differ from the uninterrupted run" % (self.ops[-12:], name))
                    self.dead = True
                    return
            info = m.get_additional_information()
            if not self.done:
                if info["has_model_finished"] is not False or m.get_simulation_results() is not False:
                    self.res.fail("finished_too_early", "after history %s: model reports finished=%r / returns a summary before termination" % (self.ops[-12:], info["has_model_finished"]))
                    self.dead = True
            else:
                d = compare_outputs(outputs_of(m), (rf, rs, rg, rsm))
                if d:
                    self.res.fail("final_differs", "history %s: final outputs differ from the uninterrupted run: %s" % (self.ops[-12:], d))
                    self.dead = True
                elif info["has_model_finished"] is not True or m.get_simulation_results() is False:
                    self.res.fail("not_finished_at_end", "history %s reached termination but the model does not report it" % (self.ops[-12:],))
                    self.dead = True

        def teardown(self):
            if self.cfg is None:
                return
            res = self.res
            res.sample["ops"] = self.ops[:20]
            res.labels.add("state_machine")
            if self.crossed:
                res.labels.add("crosses_season_boundary")
            if self.over:
                res.labels.add("overshoots_end")
            res.keys = set()
            if self.calls >= 3 and (self.crossed or self.over):
                res.keys.add("%s/sm/%s" % (res.sample["hash"], "-".join(map(str, self.ops))))
            res.nontrivial = bool(res.keys)
            record(dict(cfg=self.cfg, ops=[k for k in self.ops] or [1]), res)

    return StepwiseEqualsUninterrupted

"""C13 -- irrigation strategies honour their contracts."""
import numpy as np
import pandas as pd

from .. import gen
from ..engine import Result
from ..refmodel import ref_irrigation, ref_root_zone
from .common import F, G, base_sample, cfg_simplifications, observe, rows, weather_at

ID = "C13"
RULE = ("Hypothesis-generated configurations over strategies 0-5 with AppEff 30-100, MaxIrr 0-120, MaxIrrSeason 0-10000 (binding in "
        "~30 % of irrigated cases), four thresholds 0-100, interval 1-30, schedules of 0-30+ dated depths inside/outside seasons "
        "and outside the window, seasons spanning New Year, off-season on/off. A wrapper records the inputs and outputs of every "
        "daily irrigation decision; reference contracts (refmodel.ref_irrigation) restate each strategy independently. One "
        "evaluation per simulated day. Non-trivial configuration: a run with >=1 day of application and >=1 in-season day "
        "without; distinct = configuration hash.")
ASSUMPTIONS = [
    "the threshold decision is checked against the library's own depletion D and available water T (exact), D and T themselves are compared with an independent root-zone sum within 0.01 mm x compartments (+2 % of the water above field capacity, the library's rounding of the root depth)",
    "the growth stage (1-4) that selects the threshold is recomputed independently from the crop calendar (time since planting, in days or degree days, less the time lost before germination; the germination flag is read from the model state) and compared with the stage the decision used",
    "strategy, efficiency, maxima, thresholds, interval, depth and schedule are the CONFIGURED values (documented defaults where not given), not the model's internal struct",
    "the day's curve-number runoff (an input of the depletion estimate) is taken from the decision's inputs; rain, days after planting, step index and yesterday's potential ET are checked against the tables / the harness's weather copy",
]
BUDGET = {"quick": 480, "thorough": 6000}
PROFILE = gen.profile(seasons=(1, 3), max_days=1100, p_cap=0.35, p_eff=0.6, irr=((0, 1), (1, 4), (2, 3), (3, 3), (4, 2), (5, 3)),
                      p_custom_soil=0.3, p_gw=0.15, p_fm=0.3, rain=(("dry", 3), ("mid", 2), ("wet", 1)),
                      iwc=(("FC", 3), ("WP", 3), ("SAT", 1), ("Pct", 2), ("Num", 1), ("Depth", 1)))
EPS = 1e-9


def strategy(tier):
    return gen.configs(PROFILE)


def evaluate(cfg):
    tr, res = observe(cfg, capture=("irr",))
    res.sample = base_sample(cfg, tr)
    if tr.n == 0:
        return res
    idx, n = rows(tr)
    n = min(n, len(tr.irr_calls))
    if n == 0:
        return res
    m = tr.model
    from .common import configured_irrigation

    ci = configured_irrigation(cfg)      # as configured by the user, not the model's struct
    method = ci["method"]
    eff, max_irr, max_season = ci["AppEff"], ci["MaxIrr"], ci["MaxIrrSeason"]
    smt = ci["SMT"]
    interval = ci["IrrInterval"] if method == 2 else 1
    depth = ci["depth"]
    sched = {}
    if method == 3:
        for d, v in (cfg["irr"].get("schedule") or []):
            sched[pd.Timestamp(d)] = float(v)
    fl, gr = tr.flux[idx][:n], tr.growth[idx][:n]
    W = weather_at(cfg, tr.date[:n])
    ncomp = len(tr.profile["dz"])
    crops = m._param_struct.Seasonal_Crop_List
    off = bool(m._clock_struct.sim_off_season)
    L = res.labels
    res.evals = int(n)
    applied = {}           # season -> total so far (reference bookkeeping)
    last_stage = {}
    delayed = {}           # season -> [days, degree days] lost before germination (reference bookkeeping)
    ref_stage_prev = {}    # season -> growth stage at the end of the previous in-season day (reference)
    n_app = n_noapp = 0
    for i in range(n):
        a, r = tr.irr_calls[i]
        D, T, cum_out, I = [float(x) for x in r]
        gsn = bool(a[19])
        dap = int(a[14])
        k = int(tr.season_a[i])
        in_season_row = fl[i, F["dap"]] > 0
        d = tr.date[i]
        tag = "step %d (%s, season %d, dap %d): " % (i, d.date(), k, dap)
        # ---- inputs of the decision are the documented quantities ---------------------------------
        if gsn != bool(in_season_row) or dap != int(fl[i, F["dap"]]):
            res.fail("decision_inputs", tag + "decision saw growing_season=%s dap=%d, table row has dap=%d" % (gsn, dap, int(fl[i, F["dap"]])))
            break
        if int(a[15]) != int(idx[i]) or abs(float(a[20]) - W[i, 2]) > 1e-12:
            res.fail("decision_inputs", tag + "decision saw step %d rain %.6g; date's row %d rain %.6g" % (int(a[15]), float(a[20]), int(idx[i]), W[i, 2]))
            break
        reset = i > 0 and tr.season_a[i] != tr.season_a[i - 1] and not off
        exp_e = 0.0 if (i == 0 or reset) else float(fl[i - 1, F["EsPot"]])
        exp_t = 0.0 if (i == 0 or reset) else float(fl[i - 1, F["TrPot"]])
        if gsn and method in (1, 2) and (abs(float(a[10]) - exp_e) > 1e-9 or abs(float(a[11]) - exp_t) > 1e-9):
            res.fail("yesterdays_demand", tag + "depletion estimate uses potential ET (%.6g, %.6g); yesterday's reported potentials are (%.6g, %.6g)%s" % (
                float(a[10]), float(a[11]), exp_e, exp_t, " [season start, off-season skipped -> 0]" if reset else ""))
            break
        if not gsn:
            if I != 0 or fl[i, F["IrrDay"]] != 0:
                res.fail("outside_season", tag + "irrigation %.6g (reported %.6g) outside a growing season" % (I, fl[i, F["IrrDay"]]))
                break
            continue
        if dap == 1:
            applied[k] = 0.0
            last_stage[k] = 0
        so_far = applied.get(k, 0.0)
        stage = 1 if dap == 1 else int(a[8])
        if dap > 1 and k in ref_stage_prev and int(a[8]) != ref_stage_prev[k]:
            res.fail("growth_stage_reference", tag + "the decision uses growth stage %r; the crop calendar gives stage %d for the end of the previous day "
                     "(time since planting less the %s days / %.1f degree days lost before germination)" % (a[8], ref_stage_prev[k], delayed[k][0], delayed[k][1]))
            break
        if method == 1:
            if stage not in (1, 2, 3, 4) or stage < last_stage.get(k, 0):
                res.fail("growth_stage", tag + "growth stage %r (previous %r)" % (a[8], last_stage.get(k)))
                break
            last_stage[k] = stage
        # ---- independent depletion estimate ----------------------------------------------------------
        c = crops[k]
        # the library rounds the root depth to 0.01 m (half-way cases depend on the float type used): accept the value of
        # any of the neighbouring depths
        zr_ = max(float(a[12]), float(c.Zmin))
        cands = [ref_root_zone(tr.profile, zr_ + dz_, 0.0, a[13]) for dz_ in (-0.01, 0.0, 0.01) if zr_ + dz_ > 0.0]
        base_adj = float(a[10]) + float(a[11]) - W[i, 2] + float(a[21])
        d_refs = [dr_ + base_adj - ab_ for dr_, _, ab_ in cands]
        taws = [t_ for _, t_, _ in cands]
        above = max(ab_ for _, _, ab_ in cands)
        tol = 0.01 * ncomp + 0.02 * above + 1e-6
        d_ref, taw = d_refs[len(d_refs) // 2], taws[len(taws) // 2]
        if not (min(d_refs) - tol <= D <= max(d_refs) + tol) or not (min(taws) - 0.01 * ncomp - 1e-6 <= T <= max(taws) + 0.01 * ncomp + 1e-6):
            res.fail("depletion_estimate", tag + "depletion %.6g / TAW %.6g vs reference %.6g / %.6g (root zone %.3f m)" % (D, T, d_ref, taw, max(float(a[12]), float(c.Zmin))))
            break
        want = ref_irrigation(method, True, D, T, stage, dap, eff, max_irr, smt, interval, sched.get(d, 0.0), depth, max_season, so_far)
        if abs(I - want) > EPS * max(1.0, want):
            res.fail("contract_m%d" % method, tag + "strategy %d applied %.9g, contract says %.9g (D %.6g, T %.6g, stage %d, applied so far %.6g, cap %.6g, MaxIrr %.6g)" % (
                method, I, want, D, T, stage, so_far, max_season, max_irr))
            break
        rep = float(fl[i, F["IrrDay"]])
        if method == 4:
            if rep < -0.01 * ncomp:
                res.fail("net_requirement_negative", tag + "net irrigation requirement %.6g" % rep)
                break
        elif rep != I:
            res.fail("reported_vs_applied", tag + "reported IrrDay %.9g != applied %.9g" % (rep, I))
            break
        if I > max_irr + EPS:
            res.fail("daily_max", tag + "application %.9g > MaxIrr %.9g" % (I, max_irr))
            break
        applied[k] = so_far + I
        if applied[k] > max_season + 1e-9 * max(1.0, max_season):
            res.fail("seasonal_max", tag + "season total %.9g > MaxIrrSeason %.9g" % (applied[k], max_season))
            break
        if abs(cum_out - applied[k]) > 1e-9 * max(1.0, applied[k]):
            res.fail("cumulative", tag + "cumulative irrigation %.9g != sum of applications %.9g" % (cum_out, applied[k]))
            break
        # ---- reference growth stage at the end of this day (used by tomorrow's decision) --------------------------
        if dap == 1:
            delayed[k] = [0, 0.0]
        if not tr.post[i]["germination"]:
            delayed[k][0] += 1
            delayed[k][1] += float(gr[i, G["gdd"]])
        c_ = crops[k]
        t_adj = (dap - delayed[k][0]) if int(c_.CalendarType) == 1 else (float(gr[i, G["gdd_cum"]]) - delayed[k][1])
        ref_stage_prev[k] = 1 if t_adj <= float(c_.Canopy10Pct) else 2 if t_adj <= float(c_.MaxCanopy) else 3 if t_adj <= float(c_.Senescence) else 4
        if delayed[k][0] > 0:
            L.add("delayed_germination")
        if I > 0:
            n_app += 1
        else:
            n_noapp += 1
    L.add("irr_m%d" % method)
    if n_app:
        L.add("applied")
    if any(v >= max_season - 1e-9 and v > 0 for v in applied.values()) and method in (1, 2, 3, 5):
        L.add("seasonal_cap_binding")
    if method in (1, 2, 3, 5) and n_app and max_irr < 120:
        L.add("daily_max_set")
    if method == 3:
        ins_dates = set(tr.date[i] for i in range(n) if fl[i, F["dap"]] > 0)
        if any(d not in ins_dates for d in sched):
            L.add("schedule_dates_outside_season")
    if len(applied) >= 2:
        L.add(">=2_seasons")
    res.nontrivial = bool(n_app >= 1 and n_noapp >= 1)
    return res


def fixed_cases(tier):
    from .common import back_to_back_cases

    return back_to_back_cases()


simplifications = cfg_simplifications

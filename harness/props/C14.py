"""C14 -- no look-ahead: past outputs do not depend on future weather."""
import copy
import datetime as dt

import numpy as np
import pandas as pd
from hypothesis import strategies as st

from .. import gen
from ..config import apply_weather_xform, build_weather, cfg_hash, describe
from ..engine import Result
from ..observe import compare_outputs, first_diff
from .common import cfg_simplifications
from .meta import note_base_failure, run_or_classify

ID = "C14"
RULE = ("Hypothesis-generated pairs of runs. (perturb) calendar-day crops: a cut day t anywhere in the window and a perturbation "
        "(scale and shift) of any non-empty subset of {Tmin, Tmax, rain, ET0} from t onwards -- rows of all daily tables before t "
        "and summary rows of seasons harvested before t must be bitwise equal; (pad) every crop: the weather table trimmed exactly "
        "to the window vs. padded with 1-400 extra rows of absurd values before and after -- everything equal; (extend) every crop: "
        "end date extended by 1 day to 3 years over the same weather -- all rows up to the last harvest of the short run and its "
        "summary rows must be equal; (rewindow) every crop: ONE model object run over the window, its start / end dates then moved inwards "
        "through the setters and run again -- equal to a fresh model for the new window (the first window's records outside the "
        "new one have no effect). One evaluation per pair. Non-trivial pair: (perturb) the rows from t on do differ, (pad) >0 rows "
        "added on both sides, (rewindow) both runs completed, (extend) the long run contains more seasons or days than the short one and the short one completed "
        ">=1 season; distinct = (configuration, transformation).")
ASSUMPTIONS = [
    "SwitchGDD=1 (phenology averaged over the whole window by design) is outside the first clause and is not generated",
    "a pair in which one run ends in a documented rejection (thermal crop without enough degree days in the shorter tail) is counted as rejected, not compared",
    "(extend) both runs read the same weather table, generated long enough for the extended end",
    "(rewindow) not applied to interpolated water-table series (their observations must bracket the window); known finding F14h (thermal-time crop without a harvest date: the derived date is remembered on the Crop object) is reported as KNOWN-FINDING, keyed to exactly that constellation",
]
BUDGET = {"quick": 380, "thorough": 6000}
PROFILE_CAL = gen.profile(crops=list(gen.CAL_CROPS) + ["Potato", "SugarBeet", "Tomato", "Quinoa"], seasons=(1, 3), max_days=650, p_custom_soil=0.15, p_gw=0.15, p_fm=0.3, pad=(0, 5))
PROFILE_ANY = gen.profile(seasons=(1, 2), max_days=650, p_gdd=0.5, p_custom_soil=0.15, p_gw=0.15, p_fm=0.3, pad=(0, 5))
# extension pairs: CO2 tables with yearly / 5-yearly / decadal entries (interpolated), years where the default table is decadal
PROFILE_EXT = gen.profile(seasons=(1, 2), max_days=650, p_gdd=0.3, p_custom_soil=0.15, p_gw=0.15, p_fm=0.3, pad=(0, 5), p_co2=0.6,
                          co2_kinds=["table"], start_years=(1995, 2032))


@st.composite
def cases(draw):
    kind = draw(st.sampled_from(["perturb", "perturb", "perturb", "pad", "pad", "extend", "extend", "rewindow"]))
    if kind == "perturb":
        cfg = draw(gen.configs(PROFILE_CAL))
        n = (dt.datetime.strptime(cfg["end"], "%Y/%m/%d") - dt.datetime.strptime(cfg["start"], "%Y/%m/%d")).days
        t = draw(st.integers(1, max(1, n - 1)))
        if draw(st.integers(0, 1)):
            # half of the cuts fall in the first weeks of the LAST season (crop-calendar decisions are taken there)
            import datetime as _dt

            s0 = _dt.datetime.strptime(cfg["start"], "%Y/%m/%d")
            e0 = _dt.datetime.strptime(cfg["end"], "%Y/%m/%d")
            pm, pd_ = [int(x) for x in cfg["crop"]["planting"].split("/")]
            cands = [_dt.datetime(y, pm, pd_) for y in range(s0.year, e0.year + 1) if s0 <= _dt.datetime(y, pm, pd_) < e0]
            if cands:
                t = min(max(1, (cands[-1] - s0).days + draw(st.integers(1, 70))), max(1, n - 1))
        cols = draw(st.lists(st.sampled_from(["MinTemp", "MaxTemp", "MinTemp", "MaxTemp", "Precipitation", "ReferenceET"]), min_size=1, max_size=4, unique=True))
        spec = {}
        for c in cols:
            if c in ("MinTemp", "MaxTemp"):
                spec[c] = [draw(st.sampled_from([1.0, 0.5, 1.3])), float(draw(st.sampled_from([-12, -6, -2, 3, 8, 15])))]
            elif c == "Precipitation":
                spec[c] = [draw(st.sampled_from([0.0, 0.5, 3.0])), float(draw(st.sampled_from([0, 0, 5, 40])))]
            else:
                spec[c] = [draw(st.sampled_from([0.3, 1.0, 2.0])), float(draw(st.sampled_from([0, 1, 4])))]
        return dict(kind=kind, cfg=cfg, t=t, cols=spec)
    cfg = draw(gen.configs(PROFILE_ANY if kind in ("pad", "rewindow") else PROFILE_EXT))
    if kind == "rewindow":
        return dict(kind=kind, cfg=cfg, shift=draw(st.one_of(st.integers(1, 40), st.integers(41, 500))), late_end=draw(st.integers(0, 60)))
    if kind == "pad":
        return dict(kind=kind, cfg=cfg, before=draw(st.integers(1, 400)), after=draw(st.integers(1, 400)),
                    value=float(draw(st.sampled_from([99.0, -50.0, 1e5]))))
    return dict(kind=kind, cfg=cfg, extra_days=draw(st.one_of(st.integers(1, 40), st.integers(41, 1100))))


def strategy(tier):
    return cases()


def evaluate(case):
    res = Result()
    cfg, kind = case["cfg"], case["kind"]
    res.sample = {"kind": kind, "cfg": describe(cfg), "hash": cfg_hash(case)}
    res.labels.add(kind)
    start = dt.datetime.strptime(cfg["start"], "%Y/%m/%d")
    end = dt.datetime.strptime(cfg["end"], "%Y/%m/%d")
    if kind == "perturb":
        t = int(case["t"])
        res.sample.update(t=t, cols=case["cols"])
        base, info = run_or_classify(cfg)
        if base is None:
            return note_base_failure(res, info)
        c2 = copy.deepcopy(cfg)
        c2["weather_xform"] = [dict(op="perturb", **{"from": (start + dt.timedelta(days=t)).strftime("%Y-%m-%d")}, cols=case["cols"])]
        out, info2 = run_or_classify(c2)
        if out is None:
            if info2.startswith("rejected") or info2.startswith("known"):
                res.outcome = "rejected"
                res.labels.add("variant_" + info2)
                return res
            res.labels.add("variant_" + info2)
            res.outcome = "crash"
            return res
        msgs = []
        for name, a, b in (("water_flux", base[0], out[0]), ("water_storage", base[1], out[1]), ("crop_growth", base[2], out[2])):
            d = first_diff(a[:t], b[:t])
            if d:
                msgs.append("%s %s" % (name, d))
        sa = [r for r in base[3] if r[3] < t - 0]
        sb = [r for r in out[3] if r[3] < t - 0]
        if sa != sb:
            msgs.append("summary rows of seasons harvested before day %d differ: %s vs %s" % (t, sa, sb))
        if msgs:
            res.fail("past_depends_on_future", "weather changed from day %d on (%s) changes outputs before day %d: %s" % (t, case["cols"], t, "; ".join(msgs)[:500]))
        later = any(first_diff(a[t:], b[t:]) for a, b in ((base[0], out[0]), (base[2], out[2])))
        res.nontrivial = bool(later)
        if later:
            res.labels.add("later_rows_differ")
        return res
    if kind == "pad":
        w = build_weather(cfg["weather"])
        trim = dict(op="trim", first=start.strftime("%Y-%m-%d"), last=end.strftime("%Y-%m-%d"))
        c1 = copy.deepcopy(cfg)
        c1["weather_xform"] = [trim]
        c2 = copy.deepcopy(cfg)
        c2["weather_xform"] = [trim, dict(op="pad", before=case["before"], after=case["after"], value=case["value"])]
        res.sample.update(before=case["before"], after=case["after"], value=case["value"])
        base, info = run_or_classify(c1)
        if base is None:
            return note_base_failure(res, info)
        out, info2 = run_or_classify(c2)
        if out is None:
            res.fail("padding_raises", "weather rows outside the window make the run raise / be rejected (%s)" % info2)
            return res
        d = compare_outputs(out, base)
        if d:
            res.fail("padding_matters", "%d rows before and %d rows after the window (value %s) change the results: %s" % (case["before"], case["after"], case["value"], d))
        res.nontrivial = True
        if cfg["crop"]["name"] in gen.GDD_CROPS:
            res.labels.add("thermal")
        return res
    if kind == "rewindow":
        # the SAME model object is run over the full window and then, after moving its start (and end) date inwards
        # through the documented setters, run again: the records of the first window that now lie outside the new one
        # must have no effect -- the second run equals a fresh model for the new window
        from aquacrop import AquaCropModel

        from ..config import build
        from ..observe import classify_rejection, init_guard, outputs_of
        from .common import is_F16c

        new_start = start + dt.timedelta(days=int(case["shift"]))
        new_end = end - dt.timedelta(days=int(case.get("late_end", 0)))
        res.sample.update(shift=case["shift"], late_end=case.get("late_end", 0))
        if (new_end - new_start).days < 20:
            res.labels.add("rewindow_too_short")
            return res
        if (cfg.get("gw") or {}).get("method") == "Variable":
            # interpolated water-table observations must bracket the window: moving the start would make the input invalid
            res.labels.add("rewindow_skipped_interpolated_table")
            return res
        c2 = copy.deepcopy(cfg)
        c2["start"], c2["end"] = new_start.strftime("%Y/%m/%d"), new_end.strftime("%Y/%m/%d")
        fresh, info = run_or_classify(c2)
        if fresh is None:
            return note_base_failure(res, info)
        try:
            m = AquaCropModel(**build(cfg))
            with init_guard():
                m._initialize()
            m.run_model(till_termination=True, initialize_model=False)
        except Exception as e:
            if classify_rejection(e) or is_F16c(e):
                res.outcome = "rejected"
                res.labels.add("first_window_rejected")
                return res
            raise
        # known finding F14h: for a thermal-time crop without a harvest date the first run derives the latest harvest
        # date from ITS window's weather and writes it onto the user's Crop object, where the second run finds it as if
        # the user had given it. Keyed to exactly that constellation; every other rewindow failure is a violation
        from ..config import PRISTINE_CROP_PARAMS

        thermal = int(PRISTINE_CROP_PARAMS[cfg["crop"]["name"]]["CalendarType"]) == 2 or int(cfg["crop"].get("overrides", {}).get("SwitchGDD", 0) or 0) == 1
        sfx = "|derived_harvest_date_of_thermal_crop" if (thermal and cfg["crop"].get("harvest") is None) else ""
        if sfx:
            res.labels.add("rewindow_thermal_crop_without_harvest_date")
        try:
            m.sim_start_time = c2["start"]
            m.sim_end_time = c2["end"]
            m.run_model(till_termination=True)
        except Exception as e:
            res.fail("rewindow_raises" + sfx, "the model run over %s..%s and then, after moving its dates to %s..%s, run again raises %s: %s (a fresh model for that window runs)" % (
                cfg["start"], cfg["end"], c2["start"], c2["end"], type(e).__name__, str(e)[:120]))
            return res
        d = compare_outputs(outputs_of(m), fresh)
        if d:
            res.fail("records_outside_new_window_matter" + sfx, "model run over %s..%s, dates then moved to %s..%s and run again: differs from a fresh model for that window: %s" % (
                cfg["start"], cfg["end"], c2["start"], c2["end"], d))
        res.nontrivial = True
        return res
    # ---- extend ------------------------------------------------------------------------------------------
    extra = int(case["extra_days"])
    res.sample.update(extra_days=extra)
    c1 = copy.deepcopy(cfg)
    c1["weather"]["days"] = int(c1["weather"]["days"]) + extra + 5
    c2 = copy.deepcopy(c1)
    c2["end"] = (end + dt.timedelta(days=extra)).strftime("%Y/%m/%d")
    base, info = run_or_classify(c1)
    if base is None:
        return note_base_failure(res, info)
    out, info2 = run_or_classify(c2)
    if out is None:
        if info2.startswith("rejected") or info2.startswith("known"):
            res.outcome = "rejected"
            res.labels.add("variant_" + info2)
            return res
        res.outcome = "crash"
        res.labels.add("variant_" + info2)
        return res
    sm = base[3]
    if sm:
        last = max(r[3] for r in sm)
        msgs = []
        for name, a, b in (("water_flux", base[0], out[0]), ("water_storage", base[1], out[1]), ("crop_growth", base[2], out[2])):
            d = first_diff(a[: last + 1], b[: last + 1])
            if d:
                msgs.append("%s %s" % (name, d))
        if out[3][: len(sm)] != sm:
            msgs.append("summary rows of completed seasons differ: %s vs %s" % (sm[:2], out[3][:2]))
        if msgs:
            res.fail("extension_changes_completed_seasons", "extending the end date by %d days changes already completed seasons: %s" % (extra, "; ".join(msgs)[:500]))
    more = len(out[3]) > len(sm) or int((out[0] != 0).any(axis=1).sum()) > int((base[0] != 0).any(axis=1).sum())
    res.nontrivial = bool(sm and more)
    if len(out[3]) > len(sm):
        res.labels.add("extension_adds_seasons")
    if cfg["crop"]["name"] in gen.GDD_CROPS:
        res.labels.add("thermal")
    return res


def fixed_cases(tier):
    return []


def simplifications(case):
    for c in cfg_simplifications(case["cfg"]):
        c2 = dict(case)
        c2["cfg"] = c
        if case["kind"] == "perturb":
            n = (dt.datetime.strptime(c["end"], "%Y/%m/%d") - dt.datetime.strptime(c["start"], "%Y/%m/%d")).days
            if case["t"] >= n:
                continue
        yield c2
    if case["kind"] == "perturb" and len(case["cols"]) > 1:
        for k in case["cols"]:
            c2 = copy.deepcopy(case)
            del c2["cols"][k]
            yield c2

"""C20 -- disabled features and neutral settings are inert."""
import copy

from hypothesis import strategies as st

from .. import gen
from ..config import cfg_hash, describe
from ..engine import Result
from ..observe import compare_outputs
from .common import cfg_simplifications
from .meta import note_base_failure, run_or_classify

ID = "C20"
RULE = ("Hypothesis-generated base configurations x a non-empty generated subset of the listed neutral transformations: mulch "
        "cover / factor changed with mulches off; bund height / initial ponding changed with bunds off; curve-number percentage "
        "changed with its flag off; parameters of non-selected irrigation strategies changed; AppEff / WetSurf changed under "
        "rainfed; mulches on with cover 0 or factor 0 (= off); constant depth 0, empty schedule, MaxIrr=0 or MaxIrrSeason=0 for "
        "surface strategies (= rainfed); explicit harvest_date equal to the one the model computed. Oracle: all daily tables and "
        "the summary bitwise equal to the base run. One evaluation per pair. Non-trivial pair: a CONTROL run in which the same "
        "knobs are changed with the feature switched ON (or to a non-neutral value) does change the outputs (measured), i.e. the "
        "knob is live; distinct = (configuration, transformation set).")
ASSUMPTIONS = [
    "for the '= rainfed' transformations the base run is the same configuration with the rainfed strategy",
    "field-management transformations are applied either to the in-season or to the fallow field management object (drawn); for the fallow object the off-season is simulated so that it is in force on some days",
]
BUDGET = {"quick": 240, "thorough": 2600}
PROFILE = gen.profile(seasons=(1, 2), max_days=520, p_gdd=0.25, p_custom_soil=0.2, p_gw=0.15, p_fm=0.6, p_ffm=0.2,
                      storms=(1, 5), rain=(("dry", 1), ("mid", 2), ("wet", 2)), p_harvest=0.0)
KINDS = ["mulch_off", "bunds_off", "cn_pct_off", "other_strategy_params", "rainfed_eff", "mulch_neutral", "irr_neutral", "harvest_default"]


@st.composite
def cases(draw):
    cfg = draw(gen.configs(PROFILE))
    kinds = draw(st.lists(st.sampled_from(KINDS), min_size=1, max_size=3, unique=True))
    if "irr_neutral" in kinds and "other_strategy_params" in kinds:
        kinds.remove("other_strategy_params")
    if "irr_neutral" in kinds and "rainfed_eff" in kinds:
        kinds.remove("rainfed_eff")
    p = dict(mulch_pct=float(draw(st.sampled_from([10, 60, 100]))), f_mulch=draw(st.sampled_from([0.2, 0.7, 1.0])),
             z_bund=draw(st.sampled_from([0.05, 0.2, 0.4])), bund_water=float(draw(st.sampled_from([10, 80, 300]))),
             cn_pct=float(draw(st.sampled_from([-40, -15, 10, 25]))), smt=[float(draw(st.sampled_from([20, 60, 90]))) for _ in range(4)],
             interval=draw(st.integers(1, 20)), depth=float(draw(st.sampled_from([3, 12, 40]))), net=float(draw(st.sampled_from([20, 60, 95]))),
             eff=float(draw(st.integers(30, 95))), wet=float(draw(st.integers(10, 90))),
             neutral_mulch=draw(st.sampled_from(["cover0", "factor0"])),
             neutral_irr=draw(st.sampled_from(["depth0", "empty_schedule", "maxirr0", "maxseason0"])),
             neutral_method=draw(st.sampled_from([1, 2, 3, 5])),
             target=draw(st.sampled_from(["fm", "fm", "ffm"])))
    if p["target"] == "ffm":
        cfg["off_season"] = True   # so that fallow days (and the fallow field management) are simulated
    return dict(cfg=cfg, kinds=kinds, p=p)


def strategy(tier):
    return cases()


def transform(cfg, kinds, p):
    """Return (base, variant, control) configurations; control switches the touched features ON."""
    base = copy.deepcopy(cfg)
    FM = p.get("target", "fm")          # which field-management object the transformation touches (in-season or fallow)
    fm = dict(base.get(FM) or {})
    irr = dict(base.get("irr") or {"method": 0})
    if "mulch_off" in kinds or "mulch_neutral" in kinds:
        fm["mulches"] = False
        fm.pop("mulch_pct", None)
        fm.pop("f_mulch", None)
    if "bunds_off" in kinds:
        fm["bunds"] = False
        fm.pop("z_bund", None)
        fm.pop("bund_water", None)
    if "cn_pct_off" in kinds:
        fm["curve_number_adj"] = False
        fm.pop("curve_number_adj_pct", None)
    if "rainfed_eff" in kinds or "irr_neutral" in kinds:
        irr = {"method": 0}
    base[FM] = fm or None
    base["irr"] = irr
    var = copy.deepcopy(base)
    ctl = copy.deepcopy(base)
    vfm, cfm = dict(var[FM] or {}), dict(ctl[FM] or {})
    virr, cirr = dict(var["irr"]), dict(ctl["irr"])
    if "mulch_off" in kinds:
        vfm.update(mulches=False, mulch_pct=p["mulch_pct"], f_mulch=p["f_mulch"])
        cfm.update(mulches=True, mulch_pct=p["mulch_pct"], f_mulch=p["f_mulch"])
    if "mulch_neutral" in kinds:
        if p["neutral_mulch"] == "cover0":
            vfm.update(mulches=True, mulch_pct=0.0, f_mulch=p["f_mulch"])
        else:
            vfm.update(mulches=True, mulch_pct=p["mulch_pct"], f_mulch=0.0)
        cfm.update(mulches=True, mulch_pct=p["mulch_pct"], f_mulch=p["f_mulch"])
    if "bunds_off" in kinds:
        vfm.update(bunds=False, z_bund=p["z_bund"], bund_water=p["bund_water"])
        cfm.update(bunds=True, z_bund=p["z_bund"], bund_water=p["bund_water"])
    if "cn_pct_off" in kinds:
        vfm.update(curve_number_adj=False, curve_number_adj_pct=p["cn_pct"])
        cfm.update(curve_number_adj=True, curve_number_adj_pct=p["cn_pct"])
    if "other_strategy_params" in kinds:
        m = virr["method"]
        extra = {}
        if m != 1:
            extra["SMT"] = p["smt"]
        if m != 2:
            extra["IrrInterval"] = p["interval"]
        if m != 5:
            extra["depth"] = p["depth"]
        if m != 4:
            extra["NetIrrSMT"] = p["net"]
        if m != 3:
            extra["schedule_param"] = [[base["start"].replace("/", "-"), p["depth"]]]   # a Schedule given to a strategy that ignores it
        virr.update(extra)
        # control: the same values under a strategy that reads one of them
        cirr = {"method": 5 if m != 5 else 2, "depth": p["depth"], "IrrInterval": p["interval"]}
    if "rainfed_eff" in kinds:
        virr.update(AppEff=p["eff"], WetSurf=p["wet"])
        cirr = {"method": 5, "depth": p["depth"], "AppEff": p["eff"], "WetSurf": p["wet"]}
    if "irr_neutral" in kinds:
        k = p["neutral_irr"]
        if k == "depth0":
            virr = {"method": 5, "depth": 0.0}
            cirr = {"method": 5, "depth": p["depth"]}
        elif k == "empty_schedule":
            virr = {"method": 3, "schedule": []}
            cirr = {"method": 5, "depth": p["depth"]}
        else:
            m = p["neutral_method"]
            virr = {"method": m}
            if m == 1:
                virr["SMT"] = p["smt"]
            elif m == 2:
                virr["IrrInterval"] = p["interval"]
            elif m == 3:
                virr["schedule"] = []
                m_sched = True
            else:
                virr["depth"] = p["depth"]
            if m == 3:
                # a non-empty schedule is needed for MaxIrr to matter: use constant depth instead
                virr = {"method": 5, "depth": p["depth"]}
            cirr = dict(virr)
            virr["MaxIrr" if k == "maxirr0" else "MaxIrrSeason"] = 0.0
    var[FM], ctl[FM] = (vfm or None), (cfm or None)
    var["irr"], ctl["irr"] = virr, cirr
    return base, var, ctl


def evaluate(case):
    res = Result()
    kinds, p = case["kinds"], case["p"]
    base, var, ctl = transform(case["cfg"], kinds, p)
    FM = p.get("target", "fm")
    res.sample = {"cfg": describe(base), "kinds": kinds, "target": FM, "variant_" + FM: var.get(FM), "variant_irr": var.get("irr"), "hash": cfg_hash(case)}
    res.labels.add("target:" + FM)
    for k in kinds:
        res.labels.add(k + (":" + p["neutral_irr"] if k == "irr_neutral" else ":" + p["neutral_mulch"] if k == "mulch_neutral" else ""))
    b, info = run_or_classify(base)
    if b is None:
        return note_base_failure(res, info)
    if "harvest_default" in kinds:
        hd = info.crop.harvest_date  # the latest harvest date the model computed itself
        if base["crop"].get("harvest") is None and hd:
            var["crop"]["harvest"] = hd
            ctl["crop"]["harvest"] = None
            res.sample["explicit_harvest"] = hd
    v, info2 = run_or_classify(var)
    if v is None:
        res.fail("neutral_raises:" + "+".join(sorted(kinds)), "neutral transformation %s makes the run raise / be rejected (%s)" % (kinds, info2))
        return res
    d = compare_outputs(v, b)
    if d:
        res.fail("neutral_changes_results:" + "+".join(sorted(kinds)), "neutral transformation %s (%s %s, irr %s, harvest %s) changes the results: %s" % (
            kinds, FM, var.get(FM), var.get("irr"), var["crop"].get("harvest"), d))
    live_kinds = [k for k in kinds if k != "harvest_default"]
    if live_kinds:
        c, info3 = run_or_classify(ctl)
        live = c is not None and compare_outputs(c, b) is not None
        res.nontrivial = bool(live)
        if live:
            res.labels.add("control_knob_is_live")
    else:
        res.nontrivial = bool(var["crop"].get("harvest"))
    return res


def fixed_cases(tier):
    return []


def simplifications(case):
    if len(case["kinds"]) > 1:
        for k in case["kinds"]:
            yield dict(cfg=case["cfg"], kinds=[x for x in case["kinds"] if x != k], p=case["p"])
    for c in cfg_simplifications(case["cfg"]):
        yield dict(cfg=c, kinds=case["kinds"], p=case["p"])

"""C16 -- every valid configuration runs to completion with finite outputs."""
import copy
import itertools
import os

import numpy as np
from hypothesis import strategies as st

from .. import gen
from ..config import BUILTIN_SOILS, CROPS, cfg_hash, describe
from ..config import PRISTINE_CROP_PARAMS as crop_params
from ..engine import Result
from .common import F, base_sample, cfg_simplifications, exception_of, observe, rows
from ..observe import is_malformed_date_error

ID = "C16"
RULE = ("(a) the catalogue product crop (37) x soil (15) x strategy (6) = 3330 cells with default options and a climate suited to the "
        "crop: a 1-in-6 stride rotating with VERIF_SEED in quick (555 cells), all cells in thorough; (b) option switches: every "
        "documented value of ETadj, PlantMethod, CropType, GDDmethod, SwitchGDD (mean / median), Determinant, PolHeatStress, PolColdStress, TrColdStress, "
        "adj_cn, calc_cn, adj_rew, bunds at heights 0 / 0.001 / 0.05 / 0.3 m, mulches, inhibited runoff, water-table method, CO2 "
        "option, initial-water-content type, one at a time on 4 base crops (pairwise in thorough); (c) dates: start / end on 29 Feb, "
        "ends on / one day around a planting date and at year boundaries, starts after planting, partial seasons; (d) Hypothesis: "
        "random cell + generated options, field management, groundwater, initial water content, CO2, off-season, random weather. "
        "Oracle: the run terminates within (days in the window) steps with every reported number finite (z_gw exempt without a "
        "table), or raises one of the documented rejections AND the configuration meets that rejection's documented condition "
        "(reference computation: degree-day sum from every scheduled planting date to the end of the window vs. the configured "
        "maturity, first day beyond maturity >= 365, window > 580 years, weather table not covering the window); anything else is "
        "a violation bucketed by (exception type, innermost aquacrop frame) or 'unjustified_rejection:<kind>'. Non-termination of "
        "the initialisation is decided by a deterministic budget of function calls and of executed package source lines. One evaluation per run. Non-trivial run: completed >= 1 season; distinct = configuration hash.")
ASSUMPTIONS = [
    "documented rejections are recognised by type + message + raising module (date format, weather coverage, > 580 years, too few growing degree days, more than a year to maturity); whether a degree-day rejection is warranted is not decided for SwitchGDD=1 crops (calendar converted from the weather) and for sums within 1e-6 of maturity (label rejection_undecided)",
    "a planting date on 29 February cannot recur in consecutive years and is not generated",
    "known finding F16c (window for which the library schedules no season -> IndexError) is reported as KNOWN-FINDING, keyed to that exception site",
]
BUDGET = {"quick": 480, "thorough": 6000}
CRASH_IS_VIOLATION = True
EXHAUSTIVE_NOTE = "thorough enumerates the complete 37 x 15 x 6 catalogue with default options; quick a rotating 1-in-6 stride of it; options per cell are sampled"
PROFILE = gen.profile(seasons=(1, 2), max_days=800, p_gdd=0.45, switches=True, p_override=0.3, p_custom_soil=0.0, p_dz=0.0, p_soil_args=0.4,
                      p_fm=0.6, p_ffm=0.4, p_gw=0.35, p_co2=0.4, p_harvest=0.2,
                      rel_start=(("on", 4), ("before", 3), ("after", 3)), end_kind=(("after_harvest", 4), ("mid_season", 3), ("exact_year", 3)))


def weather_for(crop, first, days, noise=2):
    tb = float(crop_params[crop]["Tbase"])
    return dict(kind="synth", first=first, days=days, tmean=tb + 14.0, amp=3.0, phase=0, dtr=9.0, et0=4.5, rain_p=0.3, rain_mm=9.0,
                noise=noise, events=[dict(type="storm", day=70, mm=90.0)])


def cell(crop, soil, method, **kw):
    irr = dict(method=method)
    if method == 1:
        irr["SMT"] = [70.0, 60.0, 50.0, 40.0]
    elif method == 2:
        irr["IrrInterval"] = 7
    elif method == 3:
        irr["schedule"] = [["2001-05-20", 20.0], ["2001-06-15", 30.0], ["2001-07-10", 25.0]]
    elif method == 4:
        irr["NetIrrSMT"] = 70.0
    elif method == 5:
        irr["depth"] = 4.0
    nl = 2 if soil in ("Paddy", "ac_TunisLocal") else 1
    cfg = dict(start="2001/05/01", end="2002/04/28", off_season=False, crop=dict(name=crop, planting="05/01", harvest=None, overrides={}),
               soil=dict(type=soil, args={}), iwc=dict(wc_type="Prop", method="Layer", depth_layer=list(range(1, nl + 1)), value=["FC"] * nl),
               irr=irr, fm=None, ffm=None, gw=None, co2=None, weather=weather_for(crop, "2001-04-25", 380))
    cfg.update(kw)
    return cfg


def catalogue():
    return list(itertools.product(CROPS, BUILTIN_SOILS, range(6)))


BASE_CROPS = ["Maize", "WheatGDD", "Potato", "Tomato"]
SWITCHES = [("ETadj", [0, 1]), ("PlantMethod", [0, 1]), ("CropType", [1, 2, 3]), ("GDDmethod", [1, 2, 3]), ("Determinant", [0, 1]),
            ("PolHeatStress", [0, 1]), ("PolColdStress", [0, 1]), ("TrColdStress", [0, 1]), ("SwitchGDD", [0, 1])]


def switch_cases(pairwise):
    out = []
    for crop in BASE_CROPS:
        for name, vals in SWITCHES:
            for v in vals:
                c = cell(crop, "Loam", 1)
                c["crop"]["overrides"] = {name: v}
                out.append(("switch-%s-%s=%s" % (crop, name, v), c))
        if pairwise:
            for (n1, v1s), (n2, v2s) in itertools.combinations(SWITCHES, 2):
                for v1 in v1s:
                    for v2 in v2s:
                        c = cell(crop, "SandyLoam", 4)
                        c["crop"]["overrides"] = {n1: v1, n2: v2}
                        out.append(("switch2-%s-%s=%s-%s=%s" % (crop, n1, v1, n2, v2), c))
        for name, vals in (("adj_cn", [0, 1]), ("calc_cn", [0, 1]), ("adj_rew", [0, 1])):
            for v in vals:
                for soil in ("Loam", "custom"):
                    c = cell(crop, "Loam", 0)
                    if soil == "custom":
                        c["soil"] = dict(type="custom", args={name: v}, layers=[dict(kind="hyd", thickness=6.0, wp=0.15, fc=0.31, sat=0.46, ksat=500.0, pen=100)])
                    else:
                        c["soil"]["args"] = {name: v}
                    out.append(("soilopt-%s-%s-%s=%s" % (crop, soil, name, v), c))
        for z in (0.0, 0.001, 0.05, 0.3):
            for bw in (0.0, 50.0):
                c = cell(crop, "ClayLoam", 5)
                c["fm"] = dict(bunds=True, z_bund=z, bund_water=bw)
                c["ffm"] = dict(bunds=True, z_bund=z)
                c["off_season"] = True
                out.append(("bunds-%s-%s-%s" % (crop, z, bw), c))
        for fm in (dict(mulches=True, mulch_pct=100.0, f_mulch=1.0), dict(mulches=True, mulch_pct=0.0, f_mulch=0.0), dict(sr_inhb=True),
                   dict(curve_number_adj=True, curve_number_adj_pct=-50.0), dict(curve_number_adj=True, curve_number_adj_pct=30.0)):
            c = cell(crop, "SiltLoam", 2)
            c["fm"] = fm
            out.append(("fm-%s-%s" % (crop, sorted(fm.items())), c))
        for gw in (dict(method="Constant", dates=["2001/05/01"], values=[0.2]), dict(method="Constant", dates=["2001/05/01"], values=[2.0]),
                   dict(method="Constant", dates=["2001/05/01", "2001/08/01"], values=[3.0, 0.6]),
                   dict(method="Variable", dates=["2001/05/01", "2001/07/15", "2002/01/10"], values=[2.5, 0.5, 4.0])):
            c = cell(crop, "SandyClayLoam", 0)
            c["gw"] = gw
            out.append(("gw-%s-%s" % (crop, gw["method"] + str(len(gw["values"]))), c))
        for co2 in ({"constant": 300.0}, {"constant": 2500.0}, {"constant_default": True}, {"table": [[2000, 370.0], [2001, 372.0], [2002, 374.0], [2003, 376.0]]}):
            c = cell(crop, "Loam", 0)
            c["co2"] = co2
            out.append(("co2-%s-%s" % (crop, list(co2)[0]), c))
        for iwc in (dict(wc_type="Prop", method="Layer", depth_layer=[1], value=["WP"]), dict(wc_type="Prop", method="Layer", depth_layer=[1], value=["SAT"]),
                    dict(wc_type="Pct", method="Layer", depth_layer=[1], value=[0.0]), dict(wc_type="Pct", method="Depth", depth_layer=[0.2, 0.9], value=[100.0, 20.0]),
                    dict(wc_type="Num", method="Depth", depth_layer=[0.0, 0.5, 3.0], value=[0.2, 0.3, 0.25]), dict(wc_type="Prop", method="Depth", depth_layer=[0.5], value=["FC"])):
            c = cell(crop, "Loam", 4)
            c["iwc"] = iwc
            out.append(("iwc-%s-%s-%s" % (crop, iwc["wc_type"], iwc["method"]), c))
    # SwitchGDD (calendar crop converted to thermal time over the whole period): complete and partial last seasons
    for crop in ("Maize", "Potato", "Tomato", "Barley", "SugarCane", "Cassava"):
        for typ in ("mean", "median"):
            for end in ("2001/06/20", "2001/12/30", "2002/07/15", "2003/04/28"):
                c = cell(crop, "Loam", 1, end=end)
                c["weather"] = weather_for(crop, "2001-04-25", 800)
                c["crop"]["overrides"] = {"SwitchGDD": 1, "SwitchGDDType": typ}
                out.append(("switchgdd-%s-%s-%s" % (crop, typ, end), c))
    return out


def date_cases():
    out = []

    def mk(name, crop, planting, start, end, off=False, first="1999-12-01", days=2400, harvest=None):
        c = cell(crop, "Loam", 0)
        c["crop"]["planting"] = planting
        c["crop"]["harvest"] = harvest
        c.update(start=start, end=end, off_season=off, weather=weather_for(crop, first, days))
        out.append(("dates-" + name, c))

    for off in (False, True):
        t = "-off" if off else ""
        mk("start-feb29" + t, "Maize", "03/10", "2004/02/29", "2004/12/31", off)
        mk("end-feb29" + t, "Maize", "05/01", "2002/05/01", "2004/02/29", off)
        mk("end-feb29-wheat" + t, "Wheat", "10/15", "2002/10/15", "2004/02/29", off)
        mk("both-feb29" + t, "Barley", "03/01", "2000/02/29", "2004/02/29", off)
        mk("end-on-planting" + t, "Maize", "05/01", "2001/05/01", "2003/05/01", off)
        mk("end-day-before-planting" + t, "Maize", "05/01", "2001/05/01", "2003/04/30", off)
        mk("end-day-after-planting" + t, "Maize", "05/01", "2001/05/01", "2003/05/02", off)
        mk("end-dec31" + t, "Wheat", "10/15", "2001/10/15", "2003/12/31", off)
        mk("end-jan01" + t, "Wheat", "10/15", "2001/10/15", "2004/01/01", off)
        mk("start-jan01" + t, "Maize", "05/01", "2001/01/01", "2002/12/31", off)
        mk("partial-season" + t, "Maize", "05/01", "2001/05/01", "2001/06/20", off)
        mk("partial-second-season" + t, "Maize", "05/01", "2001/05/01", "2002/06/20", off)
        mk("start-before-planting-short" + t, "Maize", "05/01", "2001/04/01", "2001/05/20", off)
        mk("start-after-planting" + t, "Maize", "05/01", "2001/06/10", "2003/04/30", off)
        mk("no-season-start-after-planting" + t, "Maize", "05/01", "2001/06/10", "2001/06/20", off)
        mk("no-season-end-before-planting" + t, "Maize", "05/01", "2001/01/10", "2001/04/20", off)
        mk("new-year-season-partial" + t, "Wheat", "10/15", "2001/10/15", "2001/12/20", off)
        mk("planting-dec31" + t, "Barley", "12/31", "2001/12/31", "2003/12/30", off)
        mk("planting-jan01" + t, "Barley", "01/01", "2001/01/01", "2002/12/31", off)
        mk("explicit-harvest" + t, "Maize", "05/01", "2001/05/01", "2002/12/31", off, harvest="07/10")
        mk("explicit-harvest-next-year" + t, "Wheat", "10/15", "2001/10/15", "2003/12/31", off, harvest="03/01")
    return out


@st.composite
def cases(draw):
    crop = draw(st.sampled_from(CROPS))
    soil = draw(st.sampled_from(BUILTIN_SOILS))
    method = draw(st.integers(0, 5))
    P = dict(PROFILE)
    P["crops"] = [crop]
    P["irr"] = ((method, 1),)
    cfg = draw(gen.configs(P))
    keep = {k: v for k, v in cfg["soil"]["args"].items() if k not in ("dz",)}
    cfg["soil"] = dict(type=soil, args=keep)
    # the generator built the initial water content for another soil: re-express per layer of this soil
    nl = 2 if soil in ("Paddy", "ac_TunisLocal") else 1
    iw = cfg["iwc"]
    if iw["method"] == "Layer":
        v = iw["value"][0]
        if iw["wc_type"] == "Num":
            iw = dict(wc_type="Pct", method="Layer", depth_layer=[1], value=[50.0])
            v = 50.0
        cfg["iwc"] = dict(wc_type=iw["wc_type"], method="Layer", depth_layer=list(range(1, nl + 1)), value=[v] * nl)
    elif iw["wc_type"] == "Num":
        cfg["iwc"] = dict(wc_type="Pct", method="Depth", depth_layer=iw["depth_layer"], value=[50.0] * len(iw["depth_layer"]))
    return cfg


def strategy(tier):
    return cases()


def fixed_cases(tier):
    cat = catalogue()
    if tier == "quick":
        k = int(os.environ.get("VERIF_SEED", "1") or "1")
        # rotating 1-in-6 stride that still varies the strategy: cell i is kept when (i + i // 6 + seed) % 6 == 0
        cat = [c for i, c in enumerate(cat) if (i + i // 6 + k) % 6 == 0]
    out = [("cell-%s-%s-%d" % c, cell(*c)) for c in cat]
    out += switch_cases(pairwise=(tier != "quick"))
    out += date_cases()
    return out


def evaluate(cfg):
    tr, res = observe(cfg)
    res.sample = base_sample(cfg, tr)
    exc = exception_of(tr)
    irr = cfg.get("irr") or {"method": 0}
    res.labels.add("irr_m%d" % irr["method"])
    if res.outcome == "crash":
        from .common import crash_bucket

        b = crash_bucket(exc)
        res.fail(b, "%s: %s  [%s]" % (type(exc).__name__, str(exc)[:160], describe(cfg)))
        return res
    if res.outcome == "known":
        from .common import crash_bucket

        res.fail(crash_bucket(exc), "window without a scheduled season: %s  [%s]" % (type(exc).__name__, describe(cfg)))
        return res
    if res.outcome == "rejected":
        # a documented rejection is permitted only where its documented condition holds (reference computation
        # from the configuration: degree-day sums to the end of the window, dates, coverage)
        from .common import rejection_justified

        for lab in sorted(l[9:] for l in res.labels if l.startswith("rejected:")):
            ok = rejection_justified(cfg, lab)
            res.labels.add("rejection_%s:%s" % ({True: "justified", False: "UNJUSTIFIED", None: "undecided"}[ok], lab))
            if ok is False:
                res.fail("unjustified_rejection:" + lab, "rejected with %s: %s -- but the configuration does not meet the documented condition  [%s]" % (
                    type(exc).__name__, str(exc)[:140], describe(cfg)))
    if tr.overrun:
        res.fail("no_termination", "more steps than days in the window")
    idx, n = rows(tr)
    if n:
        wt = cfg.get("gw") is not None
        for name, tab in (("water_flux", tr.flux[idx]), ("water_storage", tr.storage[idx]), ("crop_growth", tr.growth[idx])):
            t = tab
            if name == "water_flux" and not wt:
                t = np.delete(tab, F["z_gw"], axis=1)
            if not np.isfinite(t).all():
                i, c = np.argwhere(~np.isfinite(t))[0]
                res.fail("nonfinite:" + name, "%s row %d column %d is %r  [%s]" % (name, idx[i], c, t[i, c], describe(cfg)))
        sm = tr.summary
        if sm is not None and len(sm):
            vals = sm.iloc[:, 4:].values.astype(float)
            if not np.isfinite(vals).all():
                res.fail("nonfinite:summary", "seasonal summary contains a non-finite value  [%s]" % describe(cfg))
        if n > len(tr.model._clock_struct.time_span):
            res.fail("no_termination", "%d steps for a window of %d days" % (n, len(tr.model._clock_struct.time_span)))
    if res.outcome == "ok" and not tr.finished and n:
        res.fail("not_finished", "run stopped without reporting termination")
    res.nontrivial = bool(tr.summary is not None and len(tr.summary) >= 1)
    if cfg["crop"].get("overrides"):
        for k in cfg["crop"]["overrides"]:
            if k in dict(SWITCHES):
                res.labels.add("switch:" + k)
    if cfg.get("gw"):
        res.labels.add("groundwater")
    if cfg.get("off_season"):
        res.labels.add("off_season")
    return res


simplifications = cfg_simplifications

"""C11 -- inputs are not consumed by a run."""
import copy

from hypothesis import strategies as st

from .. import gen
from ..config import build, cfg_hash, describe
from ..engine import Result
from ..observe import classify_rejection, compare_outputs, init_guard, outputs_of
from .common import cfg_simplifications, crash_bucket, is_F16c

from aquacrop import AquaCropModel

ID = "C11"
RULE = ("Hypothesis-generated histories over ONE set of input objects (soil, crop, weather table, irrigation incl. dated schedules, "
        "field management, groundwater, CO2 object): after a first run, a generated sequence of 1-5 operations from "
        "{re-run the same model object, build a new model from the same objects and run it, build a new model from the same "
        "objects and run it step-wise} is applied; every run's tables and summary must be bitwise equal to the first run's and no "
        "call may raise. Configurations cover every strategy, deep-rooted crops on shallow profiles (profile deepening), thermal "
        "crops, option switches incl. SwitchGDD, all CO2 options, groundwater, explicit/implicit harvest dates. One evaluation per re-run. Non-trivial history: "
        ">=2 runs after the first; distinct = (configuration, operation sequence).")
ASSUMPTIONS = [
    "SwitchGDD=1 converts the user's crop object to thermal time; it is generated like every other option switch (the conversion must be idempotent: finding F11s)",
    "a configuration whose FIRST run ends in a documented rejection is not a history of runs and is only counted",
]
BUDGET = {"quick": 280, "thorough": 3000}
CRASH_IS_VIOLATION = False
DEEP = ["Maize", "MaizeGDD", "Cotton", "Sunflower", "Soybean", "AlfalfaGDD", "Sorghum", "SugarCane"]
PROFILE = gen.profile(crops=DEEP + list(gen.CROPS), switches=True, switch_gdd=True, seasons=(1, 2), max_days=600, p_dz=0.4, p_co2=0.5, p_gw=0.3, p_harvest=0.3,
                      irr=((0, 1), (1, 2), (2, 2), (3, 4), (4, 2), (5, 1)), p_fm=0.4, p_ffm=0.2)
OPS = ["rerun_same_model", "new_model_same_objects", "new_model_same_objects_stepwise"]


@st.composite
def histories(draw):
    return dict(cfg=draw(gen.configs(PROFILE)), ops=draw(st.lists(st.sampled_from(OPS), min_size=1, max_size=5)),
                step=draw(st.integers(1, 90)))


def strategy(tier):
    return histories()


def evaluate(case):
    res = Result()
    cfg, ops = case["cfg"], case["ops"]
    res.sample = {"cfg": describe(cfg), "ops": ops, "hash": cfg_hash(case)}
    kw = build(cfg)
    try:
        m = AquaCropModel(**kw)
        m.run_model(till_termination=True)
    except Exception as e:
        lab = classify_rejection(e)
        if lab:
            res.outcome = "rejected"
            res.labels.add("rejected:" + lab)
        elif is_F16c(e):
            res.outcome = "known"
            res.exclude("F16c")
        else:
            res.outcome = "crash"
            res.labels.add(crash_bucket(e))
        return res
    first = outputs_of(m)
    res.evals = 0
    deep0 = float(m._param_struct.Soil.zSoil)
    for n, op in enumerate(ops, start=1):
        try:
            if op == "rerun_same_model":
                m.run_model(till_termination=True)
                cur = m
            elif op == "new_model_same_objects":
                cur = AquaCropModel(**kw)
                cur.run_model(till_termination=True)
            else:
                cur = AquaCropModel(**kw)
                cur._initialize()
                g = 0
                while not cur._clock_struct.model_is_finished:
                    cur.run_model(num_steps=int(case["step"]), initialize_model=False)
                    g += 1
                    if g > 5000:
                        raise RuntimeError("does not terminate")
        except Exception as e:
            res.fail("rerun_raises:" + op, "run %d (%s) over the same input objects raises %s: %s" % (n + 1, op, type(e).__name__, str(e)[:120]))
            break
        res.evals += 1
        d = compare_outputs(outputs_of(cur), first)
        if d:
            res.fail("rerun_differs:" + op, "run %d (%s) over the same input objects differs from the first run: %s" % (n + 1, op, d))
            break
        res.labels.add(op)
    irr = cfg.get("irr") or {"method": 0}
    res.labels.add("irr_m%d" % irr["method"])
    if irr["method"] == 3 and irr.get("schedule"):
        res.labels.add("dated_schedule")
    if deep0 > sum(cfg["soil"].get("args", {}).get("dz", [0.1] * 12)) + 1e-9:
        res.labels.add("profile_deepened")
    if cfg.get("co2"):
        res.labels.add("co2:" + list(cfg["co2"].keys())[0])
    if cfg.get("gw"):
        res.labels.add("groundwater")
    if cfg["crop"]["name"] in gen.GDD_CROPS:
        res.labels.add("thermal")
    res.nontrivial = bool(res.evals >= 2)
    if res.evals == 0:
        res.evals = 1
    return res


def fixed_cases(tier):
    """Boundary: the latest harvest date the library derives (planting + MaturityCD + 30 days) and writes onto the
    user's Crop object falls on / next to the planting day itself (a season of a full year)."""
    out = []
    W = dict(kind="synth", first="2000-04-25", days=1400, tmean=24.0, amp=3.0, phase=0, dtr=9.0, et0=4.5, rain_p=0.35, rain_mm=10.0, noise=11, events=[])
    for name in ("Cassava", "SugarCane"):
        for mcd in (334, 335, 336):
            for off in (False, True):
                cfg = dict(start="2000/05/01", end="2003/12/31", off_season=off,
                           crop=dict(name=name, planting="05/01", harvest=None, overrides={"MaturityCD": mcd}),
                           soil=dict(type="Loam", args={}), iwc=None, irr=dict(method=0), fm=None, ffm=None, gw=None, co2=None, weather=dict(W))
                out.append(("year-long-%s-%d-%s" % (name, mcd, off), dict(cfg=cfg, ops=list(OPS), step=61)))
    return out


def simplifications(case):
    ops = case["ops"]
    for i in range(len(ops)):
        if len(ops) > 1:
            yield dict(cfg=case["cfg"], ops=ops[:i] + ops[i + 1:], step=case["step"])
    for c in cfg_simplifications(case["cfg"]):
        yield dict(cfg=c, ops=ops, step=case["step"])

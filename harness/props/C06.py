"""C06 -- yields and seasonal totals agree with the daily tables."""
import numpy as np
import pandas as pd

from .. import gen
from ..engine import Result
from .common import ConfiguredCrop, F, G, base_sample, cfg_simplifications, observe, rows, weather_at

ID = "C06"
RULE = ("Hypothesis-generated configurations: every irrigation strategy (net irrigation with dry starts -> pre-irrigation, binding "
        "seasonal caps), crops that die in long droughts, determinate / indeterminate crops, crops with WPy < 100, 1-4 seasons, "
        "off-season on/off, windows ending mid-season. One evaluation per simulated day (biomass-gain and yield identities) plus "
        "one per season (summary row). Non-trivial configuration: >=2 summary rows, or a binding seasonal cap, or pre-irrigation "
        "> 0, or a crop that died; distinct = configuration hash.")
ASSUMPTIONS = [
    "a run whose initial profile lies above saturation or below air-dry in some compartment (possible when depth points of one layer are extended into a layer with other hydraulic properties) is outside the domain of valid configurations: counted under the label start_outside_airdry_saturation, not evaluated",
    "WP, WPy and the dry-matter content are the CONFIGURED values (override or catalogue); the CO2 factor fCO2 and the crop type are read from the model's per-season crop object (fCO2's own properties are C17's subject); ET0 from the harness's own weather copy",
    "biomass gain is compared exactly (1e-9 relative) when WPy = 100 (or the crop is a leafy crop) and bounded by [WPy/100, 1] x WP*fCO2*Tr/ET0 otherwise",
    "harvest event of a season = first in-season day on which the state reports maturity or death, or whose next date is the model's latest harvest date",
    "fresh yield is compared only for crops with a defined (positive) dry-matter content",
]
BUDGET = {"quick": 420, "thorough": 5000}
LOWWPY = ["Cotton", "DryBean", "Soybean", "Sunflower", "Quinoa", "CottonGDD", "SoybeanGDD"]
PROFILE = gen.profile(crops=LOWWPY * 2 + list(gen.CROPS), seasons=(1, 4), max_days=1500, p_cap=0.45, p_override=0.4, switches=True,
                      irr=((0, 2), (1, 3), (2, 2), (3, 2), (4, 4), (5, 2)), dry_spells=(0, 2),
                      iwc=(("FC", 2), ("WP", 4), ("SAT", 1), ("Pct", 2), ("Num", 1), ("Depth", 1)),
                      end_kind=(("after_harvest", 5), ("mid_season", 3), ("exact_year", 2)), rain=(("dry", 3), ("mid", 2), ("wet", 1)),
                      p_harvest=0.3)


def strategy(tier):
    return gen.configs(PROFILE)


def rel(a, b, tol):
    return abs(a - b) <= tol * max(1.0, abs(a), abs(b))


def evaluate(cfg):
    tr, res = observe(cfg)
    res.sample = base_sample(cfg, tr)
    if tr.n == 0 or not tr.start_ok:
        return res
    idx, n = rows(tr)
    if n == 0:
        return res
    m = tr.model
    ck = m._clock_struct
    crops = m._param_struct.Seasonal_Crop_List
    irr = m._param_struct.IrrMngt
    method = int(irr.irrigation_method)
    fl, gr = tr.flux[idx], tr.growth[idx]
    et0 = weather_at(cfg, tr.date[:n])[:, 3]
    dap = gr[:, G["dap"]]
    season = gr[:, G["season_counter"]].astype(int)
    ins = dap > 0
    L = res.labels
    res.evals = int(n)
    events = {}
    died = False
    CC = ConfiguredCrop(cfg)
    for k in sorted(set(season[ins].tolist())):
        if k < 0 or k >= len(crops):
            res.fail("season_index", "in-season rows with season counter %d" % k)
            continue
        sel = np.flatnonzero(ins & (season == k))
        c = crops[k]
        g, f = gr[sel], fl[sel]
        B, Bns = g[:, G["biomass"]], g[:, G["biomass_ns"]]
        hi, hia = g[:, G["harvest_index"]], g[:, G["harvest_index_adj"]]
        # ---- biomass gain ------------------------------------------------------------------------
        gain = np.diff(np.concatenate([[0.0], B]))
        q = float(CC.get("WP")) * float(c.fCO2) * f[:, F["Tr"]] / et0[sel]
        wpy = float(CC.get("WPy")) / 100.0
        lo, hi_f = min(1.0, wpy), max(1.0, wpy)
        tol = 1e-9 * np.maximum(1.0, np.abs(B))
        if wpy == 1.0 or int(c.CropType) == 1:
            bad = np.abs(gain - q) > tol
        else:
            bad = (gain < lo * q - tol) | (gain > hi_f * q + tol)
        if bad.any():
            j = int(np.argmax(bad))
            res.fail("biomass_gain", "s%d step %d: biomass gain %.9g vs WP*fCO2*Tr/ET0 = %.9g (WPy %.0f%%, Tr %.6g, ET0 %.6g)" % (
                k, sel[j], gain[j], q[j], float(CC.get("WPy")), f[j, F["Tr"]], et0[sel][j]))
        # ---- yield identities ------------------------------------------------------------------------
        dry = g[:, G["DryYield"]]
        want = (B / 100.0) * hia
        if (np.abs(dry - want) > 1e-12 * np.maximum(1.0, np.abs(want))).any():
            j = int(np.argmax(np.abs(dry - want)))
            res.fail("dry_yield", "s%d step %d: DryYield %.12g != biomass/100 x HI_adj = %.12g" % (k, sel[j], dry[j], want[j]))
        if float(CC.get("YldWC")) > 0:
            fresh = g[:, G["FreshYield"]]
            want = dry / (float(CC.get("YldWC")) / 100.0)
            if (np.abs(fresh - want) > 1e-9 * np.maximum(1.0, np.abs(want))).any():
                j = int(np.argmax(np.abs(fresh - want)))
                res.fail("fresh_yield", "s%d step %d: FreshYield %.12g != DryYield/(dry-matter %.4g%%) = %.12g" % (k, sel[j], fresh[j], float(CC.get("YldWC")), want[j]))
        ypot = g[:, G["YieldPot"]]
        want = (Bns / 100.0) * hi
        if (np.abs(ypot - want) > 1e-12 * np.maximum(1.0, np.abs(want))).any():
            j = int(np.argmax(np.abs(ypot - want)))
            res.fail("yield_pot", "s%d step %d: YieldPot %.12g != biomass_ns/100 x HI = %.12g" % (k, sel[j], ypot[j], want[j]))
        # ---- harvest event -----------------------------------------------------------------------------
        hdate = pd.Timestamp(ck.harvest_dates[k])
        for j in sel:
            p = tr.post[j]
            if p["crop_mature"] or p["crop_dead"] or (tr.date[j] + pd.Timedelta(days=1)) == hdate:
                events[k] = int(j)
                if p["crop_dead"] and not p["crop_mature"]:
                    died = True
                break
    # ---- seasonal summary --------------------------------------------------------------------------------
    sm = tr.summary
    nrows = 0 if sm is None else len(sm)
    res.evals += nrows
    seasons_sm = [] if sm is None else [int(v) for v in sm["Season"].tolist()]
    if seasons_sm != sorted(events.keys()):
        res.fail("summary_rows", "summary has seasons %s but harvest events were observed for seasons %s" % (seasons_sm, sorted(events.keys())))
    elif seasons_sm != list(range(len(seasons_sm))):
        res.fail("summary_order", "summary seasons %s are not 0..n-1 in order" % (seasons_sm,))
    else:
        cap_bound = False
        for r, k in enumerate(seasons_sm):
            row = sm.iloc[r]
            j = events[k]
            t = int(idx[j])
            g = gr[j]
            exp = {
                "Harvest Date (Step)": t,
                "Dry yield (tonne/ha)": g[G["DryYield"]],
                "Fresh yield (tonne/ha)": g[G["FreshYield"]],
                "Yield potential (tonne/ha)": g[G["YieldPot"]],
            }
            for col, v in exp.items():
                if not (float(row[col]) == float(v)):
                    res.fail("summary_value:" + col.split(" (")[0].replace(" ", "_"), "season %d: summary '%s' = %r but the daily row of step %d has %r" % (k, col, row[col], t, v))
            if pd.Timestamp(row["Harvest Date (YYYY/MM/DD)"]) != tr.date[j] + pd.Timedelta(days=1):
                res.fail("summary_value:date", "season %d: summary date %s is not the day after the harvest step's date %s" % (k, row["Harvest Date (YYYY/MM/DD)"], tr.date[j].date()))
            if str(row["crop Type"]) != str(crops[k].Name):
                res.fail("summary_value:crop", "season %d: crop type %r" % (k, row["crop Type"]))
            sel = np.flatnonzero(ins & (season == k))
            tot = float(fl[sel, F["IrrDay"]].sum())
            if not rel(float(row["Seasonal irrigation (mm)"]), tot, 1e-9):
                res.fail("summary_irrigation", "season %d: seasonal irrigation %.9g != sum of the daily irrigation column over the season's days %.9g" % (
                    k, float(row["Seasonal irrigation (mm)"]), tot))
            if method in (1, 2, 3, 5) and float(irr.MaxIrrSeason) < 5000 and tot >= float(irr.MaxIrrSeason) - 1e-9 and tot > 0:
                cap_bound = True
        if cap_bound:
            L.add("seasonal_cap_binding")
    L.add("irr_m%d" % method)
    pre = False
    if method == 4:
        first_days = np.flatnonzero(ins & (dap == 1))
        pre = bool(len(first_days) and (tr.th_before_a[first_days] < tr.profile["th_fc"] - 0.02).any() and (fl[first_days, F["IrrDay"]] > 1).any())
    if pre:
        L.add("pre_irrigation")
    if died:
        L.add("crop_died")
    if nrows >= 2:
        L.add("multi_season_summary")
    if any(float(crops[k].WPy) < 100 for k in set(season[ins].tolist()) if 0 <= k < len(crops)):
        L.add("WPy<100")
    if ins.any() and not events:
        L.add("no_harvest_reached")
    res.nontrivial = bool(nrows >= 2 or "seasonal_cap_binding" in L or pre or died)
    return res


def fixed_cases(tier):
    from .common import back_to_back_cases

    return back_to_back_cases()


simplifications = cfg_simplifications

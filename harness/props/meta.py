"""Helpers for the metamorphic / differential properties (C14, C15, C20)."""
from ..engine import Result
from ..observe import classify_rejection, outputs_of, run_plain
from .common import crash_bucket, is_F16c


def run_or_classify(cfg, res=None, weather_df=None):
    """(outputs, model) or (None, label) where label is 'rejected:<x>' / 'known:F16c' / 'crash:<bucket>'."""
    try:
        m = run_plain(cfg, weather_df)
    except Exception as e:
        lab = classify_rejection(e)
        if lab:
            return None, "rejected:" + lab
        if is_F16c(e):
            return None, "known:F16c"
        return None, crash_bucket(e)
    return outputs_of(m), m


def note_base_failure(res, label):
    if label.startswith("rejected"):
        res.outcome = "rejected"
    elif label.startswith("known"):
        res.outcome = "known"
        res.exclude("F16c")
    else:
        res.outcome = "crash"
    res.labels.add(label)
    return res

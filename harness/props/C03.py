"""C03 -- soil water content and ponding stay within physical limits."""
import numpy as np

from .. import gen
from ..engine import Result, hyp_target
from .common import F, STOR_TH0, base_sample, configured_profile, bunds_effective, cfg_simplifications, field_mgmt_for, observe, rows

ID = "C03"
RULE = ("Hypothesis-generated configurations biased to saturated / wilting-point / numeric starts, 50-300 mm storms, dry spells "
        "of up to 400 days with ET0 spikes, water tables 0.1-8 m, layered soils with 1-30 mm/day layers, all strategies, bunds; "
        "every simulated day x compartment is checked, one evaluation per day. Non-trivial configuration: some compartment comes "
        "within 1e-6 of saturation on some day AND (some compartment within 1 % (relative) of its air-dry value, or ponding "
        "reaches the bund height); distinct = configuration hash.")
ASSUMPTIONS = [
    "the th bound is checked only when the initial profile is between wilting point and saturation in every compartment (the property's precondition); other cases still check ponding and Wr and are counted under the label iwc_outside_precondition",
    "bounds (air-dry, saturation, wilting point) are the CONFIGURED values of the compartment's layer (built-in soil table / custom hydraulic layers; layers given by texture use the model's pedotransfer values, which C18 compares with an independent Saxton & Rawls)",
    "bund height of a day = the field management in force that day (season or fallow); bunds <= 1 mm count as none",
    "tolerance 1e-9",
]
BUDGET = {"quick": 420, "thorough": 5000}
PROFILE = gen.profile(seasons=(1, 3), max_days=1100, storms=(0, 6), storm_mm=(50, 300), dry_spells=(0, 2), low_ksat=True,
                      p_custom_soil=0.55, p_gw=0.4, gw_shallow=True, p_bunds=0.5, p_fm=0.6, p_ffm=0.4, p_off=0.6,
                      iwc=(("FC", 1), ("WP", 3), ("SAT", 3), ("Pct", 1), ("Num", 2), ("Depth", 2)),
                      rain=(("dry", 3), ("mid", 1), ("wet", 2)), irr=((0, 3), (1, 2), (2, 1), (3, 1), (4, 5), (5, 2)))
EPS = 1e-9


def strategy(tier):
    return gen.configs(PROFILE)


def evaluate(cfg):
    tr, res = observe(cfg)
    res.sample = base_sample(cfg, tr)
    if tr.n == 0:
        return res
    idx, n = rows(tr)
    if n == 0:
        return res
    pr = configured_profile(cfg, tr)   # saturation / air-dry / wilting point as configured, not the model's copies
    pr["Layer"], pr["Ksat"] = tr.profile["Layer"], tr.profile["Ksat"]
    th = tr.storage[idx][:, STOR_TH0:]
    fl = tr.flux[idx]
    res.evals = int(n)
    th0 = tr.th_before_a[0]
    pre_ok = bool(((th0 >= pr["th_wp"] - 1e-12) & (th0 <= pr["th_s"] + 1e-12)).all())
    L = res.labels
    if pre_ok:
        over = th - pr["th_s"]
        under = pr["th_dry"] - th
        if not np.isfinite(th).all():
            res.fail("th_nonfinite", "non-finite water content")
        elif (over > EPS).any():
            i, c = np.unravel_index(int(np.argmax(over)), over.shape)
            res.fail("th_above_sat", "step %d (%s) compartment %d: th %.9g > th_s %.9g" % (i, tr.date[i].date(), c, th[i, c], pr["th_s"][c]))
        elif (under > EPS).any():
            i, c = np.unravel_index(int(np.argmax(under)), under.shape)
            res.fail("th_below_dry", "step %d (%s) compartment %d: th %.9g < th_dry %.9g" % (i, tr.date[i].date(), c, th[i, c], pr["th_dry"][c]))
        hyp_target(float(np.max(over)), "th-th_s")
        hyp_target(float(np.max(under)), "th_dry-th")
    else:
        L.add("iwc_outside_precondition")
    ss = fl[:, F["surface_storage"]]
    at_bund = False
    # the state the run starts from: ponded water only behind configured bunds, not above them
    from .common import FMView

    fm0 = FMView(cfg.get("fm") if int(tr.season_a[0]) >= 0 else cfg.get("ffm"))
    want0 = min(fm0.bund_water, fm0.z_bund) if bunds_effective(fm0) else 0.0
    if abs(tr.ss_before_a[0] - want0) > EPS:
        res.fail("initial_ponding", "the run starts with %.6g mm ponded; the field management in force on the first day (%s) configures %.6g mm (bunds %s, height %.6g mm, initial water %.6g mm)" % (
            tr.ss_before_a[0], "in-season" if int(tr.season_a[0]) >= 0 else "fallow", want0, fm0.bunds, fm0.z_bund, fm0.bund_water))
    for i in range(n):
        fm = field_mgmt_for(tr, i)
        if bunds_effective(fm):
            if ss[i] < -EPS or ss[i] > float(fm.z_bund) + EPS:
                res.fail("ponding_bounds", "step %d (%s): ponding %.9g outside [0, bund height %.6g]" % (i, tr.date[i].date(), ss[i], float(fm.z_bund)))
                break
            if ss[i] > 0 and abs(ss[i] - float(fm.z_bund)) < 1e-9:
                at_bund = True
        elif ss[i] != 0:
            res.fail("ponding_without_bunds", "step %d (%s): ponding %.9g with no bunds in force" % (i, tr.date[i].date(), ss[i]))
            break
    wr = fl[:, F["Wr"]]
    if (wr < -EPS).any() or not np.isfinite(wr).all():
        i = int(np.argmin(wr))
        res.fail("wr_negative", "step %d: root-zone storage %.6g" % (i, wr[i]))
    near_sat = bool((np.abs(th - pr["th_s"]) < 1e-6).any())
    near_dry = bool(((th - pr["th_dry"]) < 0.01 * pr["th_dry"]).any())
    if near_sat:
        L.add("reached_saturation")
    if near_dry:
        L.add("reached_air_dry")
    if bool((th < pr["th_wp"]).any()):
        L.add("below_wilting_point")
    if at_bund:
        L.add("ponding_at_bund_height")
    if (ss > 0).any():
        L.add("ponding")
    if cfg.get("gw"):
        L.add("water_table")
    if len(set(pr["Layer"].tolist())) > 1:
        L.add("layered_soil")
    if pr["Ksat"].min() <= 30:
        L.add("low_ksat_layer")
    res.nontrivial = bool(pre_ok and near_sat and (near_dry or at_bund))
    return res


def fixed_cases(tier):
    return []


simplifications = cfg_simplifications

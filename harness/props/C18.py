"""C18 -- soil profile and initial water content are built as specified."""
import numpy as np
from hypothesis import strategies as st

from .. import gen
from ..config import BUILTIN_SOILS, cfg_hash, describe, make_model
from ..engine import Result
from ..observe import NoProgress, classify_rejection, init_guard, snapshot_profile
from ..refmodel import BUILTIN_SOIL_TABLE, ref_saxton_rawls
from ..refsoil import layer_of_compartments, r2, tau_of
from .common import cfg_simplifications, crash_bucket, is_F16c

ID = "C18"
RULE = ("(a) all 15 built-in soils x 6 crops of different maximum rooting depth (0.5-3.0 m) with default compartments (enumerated in "
        "every run); (b) Hypothesis: built-in and custom soils (1-3 layers from hydraulic values or from texture), compartment lists "
        "of 3-20 compartments of 0.05-0.35 m, crops with Zmax 0.3-3 m (deepening by 0-2.5 m), every initial-water-content type x "
        "method with 1-5 depth points. The model is initialised (no time stepping needed) and the profile arrays and the initial "
        "water content are compared with an independent reconstruction (refsoil / refmodel: running sums, layer assignment, "
        "Saxton & Rawls written from the paper, interpolation at true mid-depths). One evaluation per initialised soil. "
        "Non-trivial case: the profile was deepened, or has >=2 layers, or the initial water content is given by depth points; "
        "distinct = configuration hash.")
ASSUMPTIONS = [
    "a quarter of the cases have a (shallow) water table: the profile arrays are checked there too, the initial water content is compared only without a water table (its documented adjustments under a table belong to C19)",
    "texture soils: wilting point / field capacity / saturation within 0.0011 and Ksat within 0.1 % + 0.06 mm/day of the independent Saxton & Rawls values (the library rounds to 0.001 / 0.1)",
    "known finding F18a: compartment tops / bottoms / mid-depths are not recomputed after deepening; reported as KNOWN-FINDING for deepened profiles only (same relation on non-deepened profiles is a violation)",
    "non-termination of the deepening loop is detected by counting calls (no timeout)",
]
BUDGET = {"quick": 1600, "thorough": 30000}
EXHAUSTIVE_NOTE = "sub-space (a) (15 built-in soils x 6 crops, default compartments) is enumerated completely in every run"
PROFILE = gen.profile(p_dz=0.6, p_custom_soil=0.55, p_soil_args=0.2, p_gw=0.25, gw_shallow=True, p_override=0.6, p_fm=0.0, p_ffm=0.0, p_co2=0.0,
                      seasons=(1, 1), max_days=400, storms=(0, 0), dry_spells=(0, 0), temp_events=(0, 0),
                      iwc=(("FC", 1), ("WP", 1), ("SAT", 1), ("Pct", 2), ("Num", 2), ("Depth", 5)), irr=((0, 1),))
FIXED_CROPS = ["PaddyRice", "Tef", "Tomato", "Wheat", "Maize", "AlfalfaGDD"]
TOL = 1e-9


def strategy(tier):
    return gen.configs(PROFILE)


def fixed_cases(tier):
    out = []
    for s in BUILTIN_SOILS:
        for c in FIXED_CROPS:
            tb = float(gen.crop_params[c]["Tbase"])
            cfg = dict(start="2001/05/01", end="2002/04/25", off_season=False, crop=dict(name=c, planting="05/01", harvest=None, overrides={}),
                       soil=dict(type=s, args={}), iwc=None, irr=dict(method=0), fm=None, ffm=None, gw=None, co2=None,
                       weather=dict(kind="synth", first="2001-04-25", days=380, tmean=tb + 15.0, amp=2.0, phase=0, dtr=8.0, et0=4.0,
                                    rain_p=0.3, rain_mm=8.0, noise=3, events=[]))
            out.append(("builtin-%s-%s" % (s, c), cfg))
    return out


def layer_specs(cfg):
    """[(thickness, wp, fc, sat, ksat, pen, exact)] per layer as specified by the user."""
    s = cfg["soil"]
    if s["type"] != "custom":
        rows, _ = BUILTIN_SOIL_TABLE[s["type"]]
        return [(t, wp, fc, sat, ks, 100.0, True) for (t, wp, fc, sat, ks) in rows]
    out = []
    for lay in s["layers"]:
        if lay["kind"] == "hyd":
            out.append((lay["thickness"], lay["wp"], lay["fc"], lay["sat"], lay["ksat"], float(lay["pen"]), True))
        else:
            r = ref_saxton_rawls(lay["sand"], lay["clay"], lay["om"])
            out.append((lay["thickness"], r["wp"], r["fc"], r["sat"], r["ksat"], float(lay["pen"]), False))
    return out


def base_dz(cfg):
    s = cfg["soil"]
    if s["type"] == "ac_TunisLocal":
        return [0.1] * 6 + [0.15] * 5 + [0.2]
    return [r2(v) for v in s.get("args", {}).get("dz", [0.1] * 12)]


def evaluate(cfg):
    res = Result()
    res.sample = {"cfg": describe(cfg), "dz": cfg["soil"].get("args", {}).get("dz"), "iwc": cfg.get("iwc"), "hash": cfg_hash(cfg)}
    m = make_model(cfg)
    try:
        with init_guard():
            m._initialize()
    except NoProgress as e:
        res.fail("deepening_no_progress", "profile deepening does not terminate: %s" % e)
        return res
    except Exception as e:
        lab = classify_rejection(e)
        if lab:
            res.outcome = "rejected"
            res.labels.add("rejected:" + lab)
        elif is_F16c(e):
            res.outcome = "known"
            res.exclude("F16c")
        else:
            res.outcome = "crash"
            res.labels.add(crash_bucket(e))
        return res
    p = snapshot_profile(m)
    soil = m._param_struct.Soil
    zmax = float(m._param_struct.Seasonal_Crop_List[0].Zmax)
    dz0 = np.array(base_dz(cfg))
    dz = p["dz"]
    L = res.labels
    n = len(dz)
    deepened = bool(abs(dz.sum() - dz0.sum()) > 1e-9)
    # ---- geometry ------------------------------------------------------------------------------------
    if n != len(dz0) or (dz <= 0).any() or not np.isfinite(dz).all():
        res.fail("compartments", "compartment thicknesses %s (specified %s)" % (dz.tolist(), dz0.tolist()))
        return res
    need = zmax + 0.1
    if dz0.sum() < need - 1e-9:
        if dz.sum() < need - 1e-9:
            res.fail("profile_too_shallow", "profile ends at %.3f m, above Zmax + 0.1 = %.3f m" % (dz.sum(), need))
        if (dz < dz0 - 1e-9).any():
            res.fail("compartment_shrunk", "deepening made a compartment thinner: %s -> %s" % (dz0.tolist(), dz.tolist()))
    # (a profile that already reaches Zmax + 0.1 within floating-point rounding may still be extended by one step,
    #  e.g. 1.2 m vs. 1.1 + 0.1 = 1.2000000000000002: harmless and not excluded by the property)
    cs = np.cumsum(dz)
    if np.abs(p["dzsum"] - cs).max() > 1e-6:
        res.fail("dzsum", "cumulative depths %s are not the running sum of the thicknesses %s" % (p["dzsum"].tolist(), cs.round(4).tolist()))
    bad_geo = []
    if np.abs(p["zBot"] - cs).max() > 1e-6:
        bad_geo.append("bottoms %s != running sum %s" % (p["zBot"].round(3).tolist(), cs.round(3).tolist()))
    if np.abs(p["z_top"] - (p["zBot"] - dz)).max() > 1e-6 or np.abs(p["z_top"] - (cs - dz)).max() > 1e-6:
        bad_geo.append("tops %s != bottoms - thickness" % p["z_top"].round(3).tolist())
    if np.abs(p["zMid"] - (cs - dz / 2)).max() > 1e-6:
        bad_geo.append("mid-depths %s != %s" % (p["zMid"].round(3).tolist(), (cs - dz / 2).round(3).tolist()))
    if bad_geo:
        res.fail("geometry_stale_after_deepening" if deepened else "geometry", "; ".join(bad_geo)[:500])
    # ---- layers ----------------------------------------------------------------------------------------
    lay = p["Layer"].astype(int)
    specs = layer_specs(cfg)
    if lay[0] != 1 or (np.diff(lay) < 0).any() or (np.diff(lay) > 1).any() or lay.min() < 1:
        res.fail("layers_not_contiguous", "layer numbers %s" % lay.tolist())
    else:
        want = layer_of_compartments(dz0, [s[0] if s[0] is not None else dz0.sum() for s in specs])
        if want.tolist() != lay.tolist():
            res.fail("layer_assignment", "layer numbers %s, expected %s from thicknesses %s over compartments %s" % (
                lay.tolist(), want.tolist(), [s[0] for s in specs], dz0.tolist()))
        else:
            for i in range(n):
                t, wp, fc, sat, ks, pen, exact = specs[lay[i] - 1]
                got = (p["th_wp"][i], p["th_fc"][i], p["th_s"][i], p["Ksat"][i], p["Penetrability"][i], p["th_dry"][i], p["tau"][i])
                if exact:
                    exp = (wp, fc, sat, ks, pen, wp / 2, tau_of(ks))
                    ok = all(abs(a - b) <= 1e-12 + 1e-12 * abs(b) for a, b in zip(got, exp))
                else:
                    exp = (wp, fc, sat, ks, pen, got[0] / 2, tau_of(got[3]))
                    ok = (abs(got[0] - wp) <= 0.0011 and abs(got[1] - fc) <= 0.0011 and abs(got[2] - sat) <= 0.0011 and
                          abs(got[3] - ks) <= 0.06 + 0.001 * ks + 30 * 0.0011 * ks / max(1e-6, (sat - fc)) * 0 and got[4] == pen and
                          abs(got[5] - got[0] / 2) <= 1e-4 and abs(got[6] - tau_of(got[3])) <= 1e-12)
                if not ok:
                    res.fail("hydraulic_properties" + ("" if exact else "_texture"), "compartment %d (layer %d): (wp, fc, sat, Ksat, penetrability, dry, tau) = %s, specified %s" % (
                        i, lay[i], tuple(round(float(x), 5) for x in got), tuple(round(float(x), 5) for x in exp)))
                    break
    if not ((p["th_dry"] < p["th_wp"]) & (p["th_wp"] < p["th_fc"]) & (p["th_fc"] <= p["th_s"])).all():
        res.fail("moisture_order", "air-dry < wilting point < field capacity <= saturation violated: %s" % np.c_[p["th_dry"], p["th_wp"], p["th_fc"], p["th_s"]].round(4).tolist()[:3])
    if ((p["tau"] < 0) | (p["tau"] > 1)).any():
        res.fail("tau_range", "drainage coefficient %s" % p["tau"].tolist())
    # ---- initial water content ---------------------------------------------------------------------------
    iwc = cfg.get("iwc") or dict(wc_type="Prop", method="Layer", depth_layer=[1], value=["FC"])
    th = np.array(m._init_cond.th, dtype=float)
    nl = int(lay.max())
    per_layer = {k: (p["th_wp"][lay == k][0], p["th_fc"][lay == k][0], p["th_s"][lay == k][0]) for k in range(1, nl + 1)}

    def value_at(layer, v):
        wp, fc, sat = per_layer[layer]
        if iwc["wc_type"] == "Prop":
            return {"WP": wp, "FC": fc, "SAT": sat}[v]
        if iwc["wc_type"] == "Pct":
            return wp + float(v) / 100.0 * (fc - wp)
        return float(v)

    want = None
    if cfg.get("gw") is not None:
        L.add("water_table(profile_only)")   # initial water content under a water table is C19's subject
    elif iwc["method"] == "Layer":
        if sorted(int(x) for x in iwc["depth_layer"]) == list(range(1, nl + 1)):
            want = np.zeros(n)
            for k, v in zip(iwc["depth_layer"], iwc["value"]):
                want[lay == int(k)] = value_at(int(k), v)
    else:
        depths = [float(d) for d in iwc["depth_layer"]]
        vals = []
        for d, v in zip(depths, iwc["value"]):
            inside = np.flatnonzero(p["dzsum"] > d)
            layer = int(lay[inside[0]]) if len(inside) else int(lay[-1])
            vals.append(value_at(layer, v))
        mid = cs - dz / 2
        want = np.interp(mid, depths, vals)
    if want is not None:
        if th.shape != want.shape or np.abs(th - want).max() > TOL:
            i = int(np.argmax(np.abs(th - want))) if th.shape == want.shape else 0
            res.fail("initial_water_content:" + iwc["wc_type"] + "/" + iwc["method"],
                     "initial water content %s != requested %s (compartment %d: %.9g vs %.9g); spec %s" % (
                         th.round(5).tolist()[:8], want.round(5).tolist()[:8], i, th[i] if th.shape == want.shape else float("nan"), want[i], iwc))
    if deepened:
        L.add("profile_deepened")
    if nl >= 2:
        L.add("layers=%d" % nl)
    if iwc["method"] == "Depth":
        L.add("iwc_by_depth_points")
    L.add("iwc:" + iwc["wc_type"])
    if cfg["soil"]["type"] == "custom":
        L.add("custom_soil")
        if any(l["kind"] == "tex" for l in cfg["soil"]["layers"]):
            L.add("texture_layer")
    if "dz" in cfg["soil"].get("args", {}):
        L.add("custom_dz")
    res.nontrivial = bool(deepened or nl >= 2 or iwc["method"] == "Depth")
    return res


simplifications = cfg_simplifications

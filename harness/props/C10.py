"""C10 -- runs are deterministic and model instances are isolated."""
import json
import os
import subprocess
import sys

import numpy as np
from hypothesis import strategies as st

from .. import REPO, VERIF, gen
from ..config import build, cfg_hash, describe, make_model
from aquacrop import AquaCropModel
from ..engine import Result
from ..observe import classify_rejection, digest, init_guard
from .common import cfg_simplifications, crash_bucket, is_F16c

ID = "C10"
RULE = ("Hypothesis-generated histories: a pool of 1-3 small configurations (same and different crops / soils / strategies, most built "
        "with default optional arguments so that default-argument lists and the crop-parameter dictionary are shared) is "
        "instantiated 2-4 times in ONE process (in half of the histories instances of the same configuration are built from one "
        "shared set of input objects, objects with equal settings -- incl. one default CO2() -- being ONE object for the whole pool; "
        "near twins of the first configuration differ in one or two parameters, in a window shifted by whole years or in a window "
        "CONTAINING the first one) and the instances are created, stepped (run_model(num_steps=k)) and finished in a "
        "generated interleaving. Oracle: every instance's output digest (sha256 over the float64 bytes of the three daily tables + "
        "the rendered summary) must equal the digest of the same configuration run alone in a FRESH interpreter with a generated "
        "PYTHONHASHSEED; the first configuration of every history is additionally run in a second fresh interpreter with another "
        "hash seed. One evaluation per compared instance. Non-trivial instance: >=2 other instances (>=1 of a different "
        "configuration) were created or stepped in the process before it finished; distinct = (history hash, instance).")
ASSUMPTIONS = [
    "in histories with shared input objects, objects with equal settings are ONE object for all configurations of the pool and the models are used one after another (every live one is finished before the next is created): two live models stepping alternately over one mutable CO2 / field-management object are outside the property, which speaks of models built or run earlier; instances built from their own objects are interleaved freely",
    "thread-level interleaving is not explored (the library is single-threaded); the 'schedule' is the order of API calls, which the harness owns",
    "fresh interpreters are /venv/bin/python -m harness.solo started with PYTHONHASHSEED set to the generated value",
    "worker assignment is varied implicitly: histories are evaluated in 16 forked worker processes, each having run different earlier histories",
]
BUDGET = {"quick": 64, "thorough": 700}
PROFILE = gen.profile(seasons=(1, 2), max_days=420, p_gdd=0.3, p_custom_soil=0.15, p_dz=0.1, p_soil_args=0.2, p_gw=0.2, p_fm=0.3,
                      p_ffm=0.15, p_co2=0.2, pad=(0, 10), storms=(0, 2))
_SOLO = {}


def solo(cfg, hashseed):
    key = (cfg_hash(cfg), hashseed)
    if key not in _SOLO:
        if len(_SOLO) > 200:
            _SOLO.clear()
        env = dict(os.environ)
        env["PYTHONHASHSEED"] = str(hashseed)
        env["VERIF_REPO"] = REPO
        env["PYTHONPATH"] = VERIF
        p = subprocess.run([sys.executable, "-W", "ignore", "-m", "harness.solo"], input=json.dumps(cfg), capture_output=True,
                           text=True, env=env, cwd=VERIF, timeout=900)
        out = [l for l in p.stdout.splitlines() if l.split(" ")[0] in ("DIGEST", "REJECTED", "CRASH")]
        if not out:
            raise RuntimeError("solo runner produced no verdict: rc=%s stderr=%s" % (p.returncode, p.stderr[-400:]))
        _SOLO[key] = out[-1]
    return _SOLO[key]


@st.composite
def histories(draw):
    npool = draw(st.integers(1, 3))
    pool = [draw(gen.configs(PROFILE))]
    for _ in range(npool - 1):
        if draw(st.booleans()):
            pool.append(draw(gen.configs(PROFILE)))
        else:
            # a NEAR TWIN of the first configuration: identical except for one or two parameters (a cache keyed on
            # only part of its inputs, or state remembered per crop / soil name, shows up between such neighbours)
            import copy

            t = copy.deepcopy(pool[0])
            for _k in range(draw(st.integers(1, 2))):
                what = draw(st.sampled_from(["HIini", "HI0", "CCx", "WP", "Zmax", "Tbase", "SxTopQ", "fshape_b", "GermThr", "PlantPop",
                                             "cn", "rew", "AppEff", "noise", "et0", "iwc", "window", "window", "subwindow", "subwindow"]))
                ov = t["crop"].setdefault("overrides", {})
                if what == "HIini":
                    ov["HIini"] = draw(st.sampled_from([0.005, 0.02, 0.03]))
                elif what == "HI0":
                    ov["HI0"] = round(float(gen.crop_params[t["crop"]["name"]]["HI0"]) * draw(st.sampled_from([0.8, 0.9, 1.05])), 4)
                elif what == "CCx":
                    ov["CCx"] = draw(st.sampled_from([0.6, 0.8, 0.9, 0.97]))
                elif what == "WP":
                    ov["WP"] = float(gen.crop_params[t["crop"]["name"]]["WP"]) + draw(st.sampled_from([-2.0, 1.5, 3.0]))
                elif what == "Zmax":
                    ov["Zmax"] = draw(st.sampled_from([0.8, 1.2, 1.6, 2.2]))
                elif what == "Tbase":
                    ov["Tbase"] = float(gen.crop_params[t["crop"]["name"]]["Tbase"]) + draw(st.sampled_from([-2.0, 1.0]))
                elif what == "SxTopQ":
                    ov["SxTopQ"] = draw(st.sampled_from([0.02, 0.035, 0.06]))
                elif what == "fshape_b":
                    ov["fshape_b"] = draw(st.sampled_from([10.0, 16.0]))
                elif what == "GermThr":
                    ov["GermThr"] = draw(st.sampled_from([0.1, 0.4]))
                elif what == "PlantPop":
                    ov["PlantPop"] = int(float(gen.crop_params[t["crop"]["name"]]["PlantPop"]) * draw(st.sampled_from([0.5, 1.5])))
                elif what == "cn" and t["soil"]["type"] == "custom":
                    t["soil"].setdefault("args", {})["cn"] = float(draw(st.integers(40, 90)))
                elif what == "rew":
                    t["soil"].setdefault("args", {}).update(adj_rew=1, rew=float(draw(st.integers(3, 14))))
                elif what == "AppEff":
                    t.setdefault("irr", {"method": 0})
                    t["irr"] = dict(t["irr"] or {"method": 0}, AppEff=float(draw(st.integers(40, 95))))
                elif what == "noise":
                    t["weather"]["noise"] = int(t["weather"].get("noise", 0)) + draw(st.integers(1, 50))
                elif what == "et0":
                    t["weather"]["et0"] = float(t["weather"].get("et0", 4.0)) + draw(st.sampled_from([-0.5, 0.7]))
                elif what == "window":
                    # the same configuration some years earlier / later (input objects with equal settings stay shareable)
                    import datetime as _dt

                    k = draw(st.sampled_from([-3, -1, 1, 2, 5]))
                    try:
                        def sh(sv, fmt):
                            d0 = _dt.datetime.strptime(sv, fmt)
                            return d0.replace(year=d0.year + k).strftime(fmt)
                        t["start"], t["end"] = sh(t["start"], "%Y/%m/%d"), sh(t["end"], "%Y/%m/%d")
                        t["weather"]["first"] = sh(t["weather"]["first"], "%Y-%m-%d")
                        if t.get("gw"):
                            t["gw"]["dates"] = [sh(x, "%Y/%m/%d") for x in t["gw"]["dates"]]
                        if (t.get("irr") or {}).get("schedule"):
                            t["irr"]["schedule"] = [[sh(d_, "%Y-%m-%d"), v_] for d_, v_ in t["irr"]["schedule"]]
                    except ValueError:
                        pass   # 29 February
                elif what == "subwindow":
                    # the same configuration over a window that CONTAINS the first one (starts one or two years earlier;
                    # the weather table is extended backwards): anything remembered per input object for 'the simulated
                    # years' is stale when the shorter window is run after the longer one
                    import datetime as _dt

                    try:
                        k = draw(st.sampled_from([1, 1, 2]))
                        d0 = _dt.datetime.strptime(t["start"], "%Y/%m/%d")
                        w0 = _dt.datetime.strptime(t["weather"]["first"], "%Y-%m-%d")
                        n0, nw = d0.replace(year=d0.year - k), w0.replace(year=w0.year - k)
                        if t["weather"].get("kind") == "synth" and not t.get("weather_xform"):
                            t["start"] = n0.strftime("%Y/%m/%d")
                            t["weather"]["days"] = int(t["weather"]["days"]) + (w0 - nw).days
                            t["weather"]["first"] = nw.strftime("%Y-%m-%d")
                            for ev in t["weather"].get("events", []):
                                if isinstance(ev, dict) and "day" in ev:
                                    ev["day"] = int(ev["day"]) + (w0 - nw).days
                    except ValueError:
                        pass   # 29 February
                elif what == "iwc" and t.get("iwc") and t["iwc"]["wc_type"] == "Pct":
                    t["iwc"]["value"] = [min(100.0, v + 7.0) for v in t["iwc"]["value"]]
            pool.append(t)
    ninst = draw(st.integers(2, 4))
    inst = [draw(st.integers(0, npool - 1)) for _ in range(ninst)]
    if npool > 1 and len(set(inst)) == 1:
        inst[-1] = (inst[0] + 1) % npool
    # schedule: sequence of instance ids; first occurrence creates, later ones step
    sched = draw(st.lists(st.tuples(st.integers(0, ninst - 1), st.integers(1, 120)), min_size=ninst, max_size=14))
    order = draw(st.permutations(list(range(ninst))))
    return dict(pool=pool, inst=inst, sched=[[a, b] for a, b in sched], finish=list(order), hashseed=draw(st.integers(0, 4_000_000)),
                share=draw(st.booleans()))


def strategy(tier):
    return histories()


def evaluate(case):
    res = Result()
    pool, inst = case["pool"], case["inst"]
    hs = int(case["hashseed"])
    res.sample = {"pool": [describe(c) for c in pool], "instances": inst, "schedule": case["sched"][:12], "finish": case["finish"],
                  "hashseed": hs, "hash": cfg_hash(case)}
    # ---- solo digests in fresh interpreters ------------------------------------------------------
    want = {}
    for ci in sorted(set(inst)):
        want[ci] = solo(pool[ci], hs)
    second = solo(pool[inst[0]], (hs * 7 + 13) % 4_000_000)
    res.evals = 0
    res.keys = set()
    if want[inst[0]] != second:
        res.fail("hash_seed_dependence", "configuration %s gives %s with PYTHONHASHSEED=%d and %s with PYTHONHASHSEED=%d" % (
            describe(pool[inst[0]]), want[inst[0]], hs, second, (hs * 7 + 13) % 4_000_000))
    res.evals += 1
    # ---- the same configurations interleaved in this process ---------------------------------------------
    models = {}
    failed = {}
    activity = []  # (instance, cfg index) events in order

    shared_kw = {}
    shared_objs = {}

    def create(i):
        try:
            if case.get("share"):
                # shared input objects are used by one live model at a time (the property speaks of models built or run
                # EARLIER): every live instance is run to its end before the next one is created
                for j in list(models):
                    if not models[j]._clock_struct.model_is_finished:
                        g = 0
                        while j in models and not models[j]._clock_struct.model_is_finished and g < 300:
                            step(j, 500)
                            g += 1
                # instances of the same configuration are built from ONE set of input objects (soil, crop, weather table,
                # management, groundwater, CO2): a model that ran earlier must not leave anything behind in them
                if inst[i] not in shared_kw:
                    kw = build(pool[inst[i]])
                    # input objects with EQUAL settings are one object for all configurations of the pool (e.g. one CO2
                    # table or one Soil handed to several models, possibly for different windows)
                    for arg, key in (("soil", "soil"), ("crop", "crop"), ("initial_water_content", "iwc"), ("irrigation_management", "irr"),
                                     ("field_management", "fm"), ("fallow_field_management", "ffm"), ("groundwater", "gw"),
                                     ("co2_concentration", "co2"), ("weather_df", "weather")):
                        sub = pool[inst[i]].get(key)
                        if arg in kw and sub is not None:
                            kk = (key, json.dumps(sub, sort_keys=True, default=str))
                            kw[arg] = shared_objs.setdefault(kk, kw[arg])
                    if "co2_concentration" not in kw:
                        # 'no CO2 argument' means a default CO2(): the user's script may just as well hold ONE such object
                        from aquacrop import CO2 as _CO2

                        kw["co2_concentration"] = shared_objs.setdefault(("co2", "default"), _CO2())
                    shared_kw[inst[i]] = kw
                m = AquaCropModel(**shared_kw[inst[i]])
            else:
                m = make_model(pool[inst[i]])
            with init_guard():
                m._initialize()
            models[i] = m
        except Exception as e:
            failed[i] = e
        activity.append((i, inst[i]))

    def step(i, k):
        m = models.get(i)
        if m is None or m._clock_struct.model_is_finished:
            return
        try:
            m.run_model(num_steps=k, initialize_model=False)
        except Exception as e:
            failed[i] = e
            models.pop(i, None)
        activity.append((i, inst[i]))

    for i, k in case["sched"]:
        if i not in models and i not in failed:
            create(i)
        else:
            step(i, k)
    for i in case["finish"]:
        if i not in models and i not in failed:
            create(i)
        guard = 0
        while i in models and not models[i]._clock_struct.model_is_finished:
            step(i, 500)
            guard += 1
            if guard > 200:
                res.fail("no_termination", "instance %d does not terminate" % i)
                break
        others_before = [(j, c) for j, c in activity if j != i]
        w = want[inst[i]]
        if i in failed:
            e = failed[i]
            lab = classify_rejection(e)
            got = "REJECTED %s" % lab if lab else "CRASH %s" % crash_bucket(e)[6:]
        else:
            got = "DIGEST %s" % digest(models[i])
        res.evals += 1
        if w.startswith("CRASH") and got.startswith("CRASH"):
            res.labels.add("crash_in_both")
            continue
        if got != w:
            res.fail("differs_from_solo", "instance %d (%s), run in one process after/between %d calls on other instances, gives %s; alone in a fresh interpreter it gives %s" % (
                i, describe(pool[inst[i]]), len(others_before), got, w))
        if w.startswith("REJECTED"):
            res.labels.add("rejected_in_both")
            continue
        if len(set(j for j, _ in others_before)) >= 2 and any(c != inst[i] for _, c in others_before):
            res.keys.add("%s/%d" % (res.sample["hash"], i))
    res.nontrivial = bool(res.keys)
    if len(set(inst)) < len(inst):
        res.labels.add("same_configuration_twice")
    if len(set(inst)) > 1:
        res.labels.add("different_configurations")
    if case.get("share") and len(set(inst)) < len(inst):
        res.labels.add("shared_input_objects")
    res.labels.add("instances=%d" % len(inst))
    return res


def fixed_cases(tier):
    return []


def simplifications(case):
    import copy

    if len(case["sched"]) > len(case["inst"]):
        for i in range(len(case["sched"])):
            c = copy.deepcopy(case)
            del c["sched"][i]
            yield c
    for pi in range(len(case["pool"])):
        for s in cfg_simplifications(case["pool"][pi]):
            c = copy.deepcopy(case)
            c["pool"][pi] = s
            yield c

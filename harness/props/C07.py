"""C07 -- the simulation calendar is exact."""
import datetime as dt

import numpy as np
import pandas as pd

from .. import gen
from ..engine import Result
from ..refmodel import ref_gdd
from ..observe import innermost_repo_frame
from .common import ConfiguredCrop, F, G, base_sample, cfg_simplifications, observe, rows, weather_at

ID = "C07"
RULE = ("Hypothesis-generated windows: start on / 1-40 days before / 1-200 days after the planting date, end after harvest / "
        "mid-season / on the planting anniversary, seasons spanning New Year, leap years, calendar-scaled and thermal crops, "
        "explicit or computed latest harvest date, off-season on/off; plus enumerated boundary windows (start / end on 29 February, on "
        "and one day around a planting date, year boundaries, partial and one-day seasons) and back-to-back year-long seasons. An independent date-arithmetic model predicts the exact "
        "sequence of simulated dates, days-after-planting and harvest days; one evaluation per simulated day. Non-trivial "
        "configuration: >=2 seasons reached, or a start strictly before the first planting date, or an end inside a season; "
        "distinct = configuration hash.")
ASSUMPTIONS = [
    "crop length (calendar days or degree days), degree-day method and temperatures are the CONFIGURED values (for a calendar crop converted by SwitchGDD the model's converted thermal values are used); the latest harvest date must be the configured one, or planting + crop length + 30 days when not configured",
    "crop death is read from the model state (it cannot be inferred from outputs); maturity is recomputed independently (days after planting, or degree days recomputed from the harness's weather copy with the FAO formulas)",
    "the number of scheduled seasons and the resolved latest-harvest dates are taken from the model's clock; their spacing, first date and the per-day consequences are checked",
    "stepping through the run in other partitions is covered by C09 (bitwise equality with the one-day stepping used here)",
]
BUDGET = {"quick": 480, "thorough": 6000}
PROFILE = gen.profile(seasons=(1, 3), max_days=1400, p_gdd=0.35, p_scale=0.7, p_harvest=0.3, p_off=0.5, p_override=0.1,
                      rel_start=(("on", 3), ("before", 3), ("after", 3)),
                      end_kind=(("after_harvest", 4), ("mid_season", 3), ("exact_year", 3)),
                      p_custom_soil=0.1, p_dz=0.05, p_soil_args=0.1, p_fm=0.1, p_ffm=0.05, p_gw=0.05, p_co2=0.05,
                      dry_spells=(0, 2), storms=(0, 1), irr=((0, 6), (1, 1), (2, 1), (3, 1), (4, 1), (5, 1)))


def strategy(tier):
    return gen.configs(PROFILE)


def evaluate(cfg):
    tr, res = observe(cfg)
    res.sample = base_sample(cfg, tr)
    if tr.n == 0:
        return res
    idx, n = rows(tr)
    if n == 0:
        return res
    m = tr.model
    ck = m._clock_struct
    crops = m._param_struct.Seasonal_Crop_List
    off = bool(ck.sim_off_season)
    start = pd.Timestamp(dt.datetime.strptime(cfg["start"], "%Y/%m/%d"))
    end = pd.Timestamp(dt.datetime.strptime(cfg["end"], "%Y/%m/%d"))
    pm, pd_ = [int(x) for x in cfg["crop"]["planting"].split("/")]
    pds = [pd.Timestamp(x) for x in ck.planting_dates]
    hds = [pd.Timestamp(x) for x in ck.harvest_dates]
    span = ck.time_span
    L = res.labels
    res.evals = int(n)
    # ---- scheduled seasons ------------------------------------------------------------------------
    first = pd.Timestamp(start.year, pm, pd_)
    if first < start:
        first = pd.Timestamp(start.year + 1, pm, pd_)
    if not pds:
        res.fail("no_seasons", "no season scheduled")
        return res
    if pds[0] != first:
        res.fail("first_planting", "first planting date %s, expected the first %02d/%02d on or after the start: %s" % (pds[0].date(), pm, pd_, first.date()))
    for a, b in zip(pds, pds[1:]):
        if b != pd.Timestamp(a.year + 1, pm, pd_):
            res.fail("planting_spacing", "planting dates %s -> %s are not the configured day of consecutive years" % (a.date(), b.date()))
    for k, (p, h) in enumerate(zip(pds, hds)):
        if not (p < h <= p + pd.Timedelta(days=366)):
            res.fail("harvest_date_order", "season %d: latest harvest date %s not within a year after planting %s" % (k, h.date(), p.date()))
    CC = ConfiguredCrop(cfg)
    hv = cfg["crop"].get("harvest")
    for k, (p_, h_) in enumerate(zip(pds, hds)):
        if hv:
            if "%02d/%02d" % (h_.month, h_.day) != "%02d/%02d" % tuple(int(x) for x in hv.split("/")):
                res.fail("harvest_date_value", "season %d: latest harvest date %s is not the configured %s" % (k, h_.date(), hv))
        elif int(CC.get("CalendarType")) == 1 and not int(CC.get("SwitchGDD") or 0):
            want = pd.Timestamp(1990, pm, pd_) + pd.Timedelta(days=int(float(CC.get("MaturityCD")) + 30))
            if (h_.month, h_.day) != (want.month, want.day):
                res.fail("harvest_date_value", "season %d: latest harvest date %s, expected planting + crop length + 30 days = %02d/%02d" % (k, h_.date(), want.month, want.day))
    if res.violations:
        return res
    # ---- walk --------------------------------------------------------------------------------------
    W = weather_at(cfg, tr.date[:n])
    fl, gr, st = tr.flux[idx], tr.growth[idx], tr.storage[idx]
    expected = start
    active = None          # season currently in its growing period
    harvested = set()
    gcum = 0.0
    events = {}
    nseas = len(pds)
    finished_at = None
    seasons_started = 0
    for i in range(n):
        d = tr.date[i]
        if d != expected:
            res.fail("date_sequence", "step %d simulates %s, expected %s (%s)" % (i, d.date(), expected.date(), "jump to next planting" if (expected - tr.date[i - 1]).days != 1 else "next day"))
            break
        if i and not (tr.date[i] > tr.date[i - 1]):
            res.fail("not_chronological", "step %d: %s after %s" % (i, d.date(), tr.date[i - 1].date()))
            break
        t = int(idx[i])
        if t != (d - start).days or pd.Timestamp(span[t]) != d:
            res.fail("row_index", "step %d: date %s written to row %d (row date %s)" % (i, d.date(), t, pd.Timestamp(span[t]).date()))
            break
        for tab, name in ((fl, "water_flux"), (gr, "crop_growth"), (st, "water_storage")):
            if int(tab[i, 0]) != t:
                res.fail("row_step_column", "step %d: %s row %d carries time_step_counter %d" % (i, name, t, int(tab[i, 0])))
        # season to which the date belongs
        kcur = max([j for j, p in enumerate(pds) if p <= d], default=-1)
        if kcur >= 0 and pds[kcur] == d:
            active = kcur
            gcum = 0.0
            seasons_started += 1
        in_season = active is not None and active not in harvested
        exp_dap = (d - pds[active]).days + 1 if in_season else 0
        got = (int(fl[i, F["dap"]]), int(gr[i, G["dap"]]), int(st[i, 2]))
        if got != (exp_dap,) * 3:
            res.fail("dap", "step %d (%s): days after planting %s, expected %d (season %s planted %s)" % (
                i, d.date(), got, exp_dap, active, pds[active].date() if active is not None else None))
            break
        if bool(st[i, 1]) != in_season:
            res.fail("growing_season_flag", "step %d (%s): growing-season flag %s, expected %s" % (i, d.date(), bool(st[i, 1]), in_season))
            break
        if int(fl[i, F["season_counter"]]) != kcur or int(gr[i, G["season_counter"]]) != kcur:
            res.fail("season_column", "step %d (%s): season counter %d/%d, expected %d" % (i, d.date(), int(fl[i, 1]), int(gr[i, 1]), kcur))
            break
        event = False
        if in_season:
            c = crops[active]
            if int(c.CalendarType) == 1:
                mature = exp_dap >= float(CC.get("MaturityCD"))     # configured crop length (calendar days)
            else:
                switched = int(CC.get("CalendarType")) == 1          # calendar crop converted by SwitchGDD: model's thermal values
                mat_gdd = float(c.Maturity) if switched else float(CC.get("Maturity"))
                g = ref_gdd(int(CC.get("GDDmethod")), float(CC.get("Tupp")), float(CC.get("Tbase")), W[i, 1], W[i, 0])
                gcum += g
                if abs(g - gr[i, G["gdd"]]) > 1e-9 or abs(gcum - gr[i, G["gdd_cum"]]) > 1e-9 * max(1.0, gcum):
                    res.fail("gdd_reference", "step %d: degree days %.9g (cum %.9g) differ from the reference %.9g (cum %.9g)" % (
                        i, gr[i, G["gdd"]], gr[i, G["gdd_cum"]], g, gcum))
                    break
                mature = gcum >= mat_gdd
            dead = tr.post[i]["crop_dead"]
            latest = (d + pd.Timedelta(days=1)) == hds[active]
            event = bool(mature or dead or latest)
            if event:
                harvested.add(active)
                events[active] = i
                L.add("harvest_by_" + ("maturity" if mature else "death" if dead else "latest_date"))
        # termination / next date
        stop = (d + pd.Timedelta(days=1)) >= end or ((nseas - 1) in harvested and kcur == nseas - 1)
        if stop:
            finished_at = i
            break
        if event and not off and active < nseas - 1:
            expected = pds[active + 1]
            L.add("jump_to_next_planting")
        else:
            expected = d + pd.Timedelta(days=1)
    if not res.violations:
        documented_stop = tr.step_error is not None and res.outcome == "rejected"  # rejected at a season start
        if tr.step_error is not None and res.outcome == "crash":
            fn, line, func = innermost_repo_frame(tr.step_error[0])
            if fn in ("timestep/update_time.py", "timestep/check_if_model_is_finished.py", "core.py"):
                res.fail("clock_crash", "the clock machinery raised %s: %s at %s:%d instead of advancing / terminating (step %d, %s)" % (
                    type(tr.step_error[0]).__name__, str(tr.step_error[0])[:80], fn, line, n - 1, tr.date[n - 1].date()))
            documented_stop = True
        if finished_at is None:
            if not documented_stop:
                res.fail("termination", "run ended after %d steps although neither the end date nor the last harvest was reached" % n)
        else:
            if finished_at != n - 1:
                res.fail("termination", "run continued after it should have terminated at step %d (%s); %d steps were executed" % (
                    finished_at, tr.date[finished_at].date(), n))
            elif not tr.finished and not documented_stop:
                res.fail("termination", "model does not report itself finished after its last step")
        if n > len(span):
            res.fail("termination", "more steps (%d) than days in the window (%d)" % (n, len(span)))
        # summary rows match the harvest events
        sm = tr.summary
        got_steps = {} if sm is None else {int(r["Season"]): int(r["Harvest Date (Step)"]) for _, r in sm.iterrows()}
        exp_steps = {k: int(idx[i]) for k, i in events.items()}
        if got_steps != exp_steps:
            res.fail("harvest_day", "harvest steps per season %s, expected %s (first day of maturity, death or latest harvest date - 1)" % (got_steps, exp_steps))
    if tr.overrun:
        res.fail("termination", "more steps than days in the window")
    if off:
        L.add("off_season_simulated")
    if seasons_started >= 2:
        L.add(">=2_seasons")
    if start < pds[0]:
        L.add("start_before_planting")
    ended_inside = bool(n and fl[n - 1, F["dap"]] > 0 and (len(events) == 0 or max(events.values()) != n - 1))
    if ended_inside:
        L.add("end_inside_season")
    if any(p.year != h.year for p, h in zip(pds, hds)):
        L.add("season_spans_new_year")
    if any((p.is_leap_year or h.is_leap_year) for p, h in zip(pds, hds)):
        L.add("leap_year")
    L.add("thermal" if int(crops[0].CalendarType) == 2 else "calendar")
    res.nontrivial = bool(seasons_started >= 2 or start < pds[0] or ended_inside)
    return res


def fixed_cases(tier):
    from .C16 import date_cases
    from .common import back_to_back_cases

    # calendar boundaries: windows starting / ending on 29 February, on / one day around a planting date, at year
    # boundaries, partial and minimum-length (one-day) seasons, explicit harvest dates
    return back_to_back_cases() + date_cases()


simplifications = cfg_simplifications

"""C08 -- seasons are independent when the off-season is not simulated."""
import copy

import numpy as np
import pandas as pd

from .. import gen
from ..engine import Result
from ..observe import classify_rejection, first_diff, outputs_of, run_plain
from .common import F, G, base_sample, cfg_simplifications, crash_bucket, is_F16c

ID = "C08"
RULE = ("Hypothesis-generated configurations with off_season=False and 2-4 seasons: all six strategies (dry starts for net "
        "irrigation, threshold/interval irrigation with day-1 demand), bunds with initial ponding, thermal crops (35 % on whole-degree 'lattice' weather whose degree-day "
        "sums land exactly on the calendar thresholds), explicit latest harvest dates, constant water tables. For every season k>=1 a fresh model built from fresh objects is started on that "
        "season's planting date (same end, weather and latest harvest date); its rows and summary must be bitwise equal to the "
        "tail of the long run from that planting date on. One evaluation per (configuration, k). Non-trivial pair: the water "
        "stored at the end of season k-1 differs from the initial storage by > 1 mm (there is something that could leak); "
        "distinct = (configuration hash, k).")
ASSUMPTIONS = [
    "the single-season comparator is given the latest harvest date (mm/dd) that the long run resolved, so both have the same harvest deadline",
    "index columns (time_step_counter, season_counter) and the summary's season / step are compared after shifting by the offset of the planting date",
    "CO2(constant_conc=True) without a concentration means 'the concentration of the first simulated year', which differs between a run started in year 0 and one started in year k, so that option is not generated here",
    "time-varying groundwater series are not generated here (their first observation must lie on the start date, which differs between the two runs); constant tables are",
]
BUDGET = {"quick": 320, "thorough": 3000}
PROFILE = gen.profile(p_lattice=0.35, p_off=0.0, seasons=(2, 4), max_days=1500, p_gdd=0.45, temp_events=(0, 4), switch_gdd=False, p_harvest=0.3, p_bunds=0.5, p_fm=0.5,
                      rel_start=(("on", 4), ("before", 2), ("after", 1)), gw_kinds=["const"], p_gw=0.2, co2_kinds=["const", "table"],
                      irr=((0, 1), (1, 3), (2, 3), (3, 2), (4, 3), (5, 1)), p_cap=0.2,
                      iwc=(("FC", 2), ("WP", 4), ("SAT", 1), ("Pct", 2), ("Num", 1), ("Depth", 1)),
                      end_kind=(("after_harvest", 6), ("mid_season", 2), ("exact_year", 2)))


def strategy(tier):
    return gen.configs(PROFILE)


def evaluate(cfg):
    res = Result()
    res.sample = base_sample(cfg)
    cfg = copy.deepcopy(cfg)
    cfg["off_season"] = False
    try:
        long_m = run_plain(cfg)
    except Exception as e:
        lab = classify_rejection(e)
        if lab:
            res.outcome = "rejected"
            res.labels.add("rejected:" + lab)
        elif is_F16c(e):
            res.outcome = "known"
            res.exclude("F16c")
        else:
            res.outcome = "crash"
            res.labels.add(crash_bucket(e))
        return res
    ck = long_m._clock_struct
    pds = [pd.Timestamp(x) for x in ck.planting_dates]
    fl, st, gr, sm = outputs_of(long_m)
    start = pd.Timestamp(ck.simulation_start_date)
    hd = long_m.crop.harvest_date
    res.evals = 0
    res.keys = set()
    sm_df = long_m._outputs.final_stats
    harvested = set(int(v) for v in sm_df["Season"].tolist())
    th0 = long_m._init_cond.thini
    dz = long_m._param_struct.Soil.Profile.dz
    method = int(long_m._param_struct.IrrMngt.irrigation_method)
    res.labels.add("irr_m%d" % method)
    if int(long_m._param_struct.Seasonal_Crop_List[0].CalendarType) == 2:
        res.labels.add("thermal")
    for k in range(1, len(pds)):
        if (k - 1) not in harvested:
            break  # season k was never started
        off = (pds[k] - start).days
        c2 = copy.deepcopy(cfg)
        c2["start"] = pds[k].strftime("%Y/%m/%d")
        c2["crop"]["harvest"] = hd
        try:
            m2 = run_plain(c2)
        except Exception as e:
            lab = classify_rejection(e)
            if lab:
                res.labels.add("fresh_rejected:" + lab)
                continue
            if is_F16c(e):
                res.exclude("F16c")
                continue
            res.fail("fresh_run_raises", "season %d started on its own (%s) raises %s: %s" % (k, c2["start"], type(e).__name__, str(e)[:100]))
            continue
        res.evals += 1
        f2, s2, g2, sm2 = outputs_of(m2)
        msgs = []
        for name, a, b, c0 in (("water_flux", fl, f2, 2), ("water_storage", st, s2, 1), ("crop_growth", gr, g2, 2)):
            a = a[off:, c0:]
            b = b[:, c0:]
            d = first_diff(a, b)
            if d:
                # locate for the message
                msgs.append("%s %s" % (name, d))
        # summary rows k.. of the long run vs rows 0.. of the fresh run
        tail = [r for r in sm if r[0] >= k]
        exp = [[r[0] - k, r[1], r[2], r[3] - off] + r[4:] for r in tail]
        if exp != sm2:
            msgs.append("summary rows differ: long run (shifted) %s vs single run %s" % (exp[:1], sm2[:1]))
        if msgs:
            res.fail("season_differs", "season %d (planted %s) differs from the same season run on its own: %s" % (k, pds[k].date(), "; ".join(msgs)[:600]))
        # non-triviality: state at the end of season k-1 differs from the initial state
        hs = int(sm_df.loc[sm_df["Season"] == k - 1, "Harvest Date (Step)"].iloc[0])
        end_th = st[hs, 3:]
        dS = abs(float(((end_th - th0) * dz).sum() * 1000.0)) + abs(float(fl[hs, F["surface_storage"]]))
        if dS > 1.0:
            res.keys.add("%s/%d" % (res.sample["hash"], k))
    res.nontrivial = bool(res.keys)
    if res.evals == 0:
        res.evals = 1
        res.labels.add("no_second_season")
    else:
        res.labels.add("compared_seasons=%d" % min(3, res.evals))
    return res


def fixed_cases(tier):
    return []


simplifications = cfg_simplifications

"""Helpers shared by the trace-based property modules."""
import copy
import datetime as dt

import numpy as np
import pandas as pd

from ..config import cfg_hash, describe
from ..engine import Result
from ..observe import (
    FLUX, GROW, STOR_TH0, HarnessError, NoProgress, classify_rejection, innermost_repo_frame,
    is_malformed_date_error, run_observed,
)

F = FLUX
G = GROW


def crash_bucket(exc):
    fn, line, func = innermost_repo_frame(exc)
    return "crash:%s@%s:%s" % (type(exc).__name__, fn, func)


def is_F16c(exc):
    """Known finding F16c: a window for which the library schedules no season raises IndexError
    while indexing the empty list of planting years / dates in read_model_parameters."""
    fn, line, func = innermost_repo_frame(exc)
    if not isinstance(exc, IndexError):
        return False
    if func == "read_model_parameters":
        return True
    # second site of the same root cause: a thermal-time crop without a harvest date -- the degree-day series from
    # the first planting date AFTER the window is empty when read_model_parameters asks for the crop calendar
    if func == "compute_crop_calendar" and "size 0" in str(exc):
        import traceback as _tb

        return any(fr.name == "read_model_parameters" for fr in _tb.extract_tb(exc.__traceback__))
    return False


def observe(cfg, capture=(), res=None, **kw):
    """Run a configuration under observation.

    Returns (trace, result).  result.outcome is set to rejected / known / crash when the run ended
    in an exception; the executed prefix of the trace (if any) is still available."""
    res = res or Result()
    tr = run_observed(cfg, capture=capture, **kw)
    exc = tr.init_error if tr.init_error is not None else (tr.step_error[0] if tr.step_error is not None else None)
    if exc is not None:
        if isinstance(exc, HarnessError):
            raise exc
        lab = classify_rejection(exc)
        if lab is not None:
            res.outcome = "rejected"
            res.labels.add("rejected:" + lab)
        elif is_F16c(exc):
            res.outcome = "known"
            res.exclude("F16c")
            res.labels.add("known:F16c")
        else:
            res.outcome = "crash"
            res.labels.add(crash_bucket(exc))
    if tr.overrun:
        res.labels.add("overrun")
    tr.start_ok = True
    if tr.n:
        th0, pr = tr.th_before_a[0], tr.profile
        if ((th0 < pr["th_dry"] - 1e-12) | (th0 > pr["th_s"] + 1e-12)).any():
            # e.g. depth points evaluated in one layer and extended into a layer with other hydraulic properties:
            # the run starts above saturation / below air-dry, which is outside every property's domain
            tr.start_ok = False
            res.labels.add("start_outside_airdry_saturation")
    return tr, res


def exception_of(tr):
    return tr.init_error if tr.init_error is not None else (tr.step_error[0] if tr.step_error is not None else None)


def rows(tr):
    """Row indices (time_step_counter) of the executed steps whose daily solution completed (the
    rows were written and the end-of-day state was observed).  A step that raised while switching
    to the next season (documented rejection at a season start) still counts: its day is complete."""
    n = min(tr.n, len(tr.post))
    return tr.tsc_a[:n], n


def base_sample(cfg, tr=None, extra=None):
    s = {"cfg": describe(cfg), "hash": cfg_hash(cfg)}
    if tr is not None and tr.n:
        s["steps"] = int(tr.n)
        s["seasons_harvested"] = 0 if tr.summary is None else int(len(tr.summary))
    if extra:
        s.update(extra)
    return s


class FMView:
    """Field management as the USER configured it (from the JSON configuration, not from the model's structs):
    bund height converted to mm as documented."""

    def __init__(self, d):
        d = d or {}
        self.bunds = bool(d.get("bunds", False))
        self.z_bund = float(d.get("z_bund", 0.0)) * 1000.0
        self.bund_water = float(d.get("bund_water", 0.0))
        self.mulches = bool(d.get("mulches", False))
        self.sr_inhb = bool(d.get("sr_inhb", False))


def field_mgmt_for(tr, i):
    """Field management in force on executed step i: the in-season object on growing-season days, the fallow
    object otherwise (the growing-season flag of the day is the model's own end-of-day state)."""
    cfg = tr.cfg
    return FMView(cfg.get("fm") if tr.post[i]["growing_season"] else cfg.get("ffm"))


def bunds_effective(fm):
    return bool(fm.bunds) and float(fm.z_bund) > 0.001


# ------------------------------------------------------------------------------------------------
# shrink-lite candidates on plain configurations
# ------------------------------------------------------------------------------------------------
def cfg_simplifications(cfg):
    def mod(**changes):
        c = copy.deepcopy(cfg)
        for k, v in changes.items():
            c[k] = v
        return c

    for key in ("prior", "reuse"):
        if cfg.get(key):
            c = copy.deepcopy(cfg)
            del c[key]
            yield c
    for key in ("gw", "co2", "ffm", "fm"):
        if cfg.get(key) is not None:
            yield mod(**{key: None})
    if cfg.get("irr") and cfg["irr"].get("method", 0) != 0:
        yield mod(irr={"method": 0})
    if cfg.get("irr"):
        for k in list(cfg["irr"].keys()):
            if k != "method":
                c = copy.deepcopy(cfg)
                del c["irr"][k]
                if not (c["irr"]["method"] == 3 and k == "schedule"):
                    yield c
    if cfg["crop"].get("overrides"):
        c = copy.deepcopy(cfg)
        c["crop"]["overrides"] = {}
        yield c
        CAL = ("EmergenceCD", "MaxRootingCD", "SenescenceCD", "MaturityCD", "HIstartCD", "FloweringCD", "YldFormCD", "CGC_CD", "CDC_CD",
               "Emergence", "MaxRooting", "Senescence", "Maturity", "HIstart", "Flowering", "YldForm", "CGC", "CDC")
        if any(k in cfg["crop"]["overrides"] for k in CAL):
            # a scaled crop calendar is ONE setting: dropping single stages would leave an inconsistent calendar
            c = copy.deepcopy(cfg)
            for k in CAL:
                c["crop"]["overrides"].pop(k, None)
            yield c
        for k in list(cfg["crop"]["overrides"].keys()):
            if k in CAL or k == "SwitchGDDType":
                continue
            c = copy.deepcopy(cfg)
            del c["crop"]["overrides"][k]
            if k == "SwitchGDD":
                c["crop"]["overrides"].pop("SwitchGDDType", None)
            yield c
    if cfg["crop"].get("harvest"):
        c = copy.deepcopy(cfg)
        c["crop"]["harvest"] = None
        yield c
    if cfg["soil"]["type"] == "custom" or cfg["soil"].get("args"):
        c = copy.deepcopy(cfg)
        c["soil"] = {"type": "Loam", "args": {}}
        c["iwc"] = None
        yield c
    if cfg["soil"].get("args"):
        for k in list(cfg["soil"]["args"].keys()):
            c = copy.deepcopy(cfg)
            del c["soil"]["args"][k]
            if k == "dz":
                c["soil"]["args"].pop("z_top", None)
            yield c
    if cfg.get("iwc") is not None and cfg["soil"]["type"] != "custom":
        yield mod(iwc=None)
    if cfg.get("off_season"):
        yield mod(off_season=False)
    ev = cfg["weather"].get("events", []) if cfg["weather"].get("kind") == "synth" else []
    if ev:
        c = copy.deepcopy(cfg)
        c["weather"]["events"] = []
        yield c
        for i in range(len(ev)):
            c = copy.deepcopy(cfg)
            del c["weather"]["events"][i]
            yield c
    # shorter windows
    s = dt.datetime.strptime(cfg["start"], "%Y/%m/%d").date()
    e = dt.datetime.strptime(cfg["end"], "%Y/%m/%d").date()
    n = (e - s).days
    for frac in (0.25, 0.5, 0.75):
        k = int(n * frac)
        if k >= 10:
            c = mod(end=(s + dt.timedelta(days=k)).strftime("%Y/%m/%d"))
            gw = c.get("gw")
            if gw and len(gw["dates"]) > 1 and gw.get("method") == "Variable":
                # keep the input sound: interpolated observations must lie inside the (shorter) window
                new_end = s + dt.timedelta(days=k)
                keep = [i for i, d_ in enumerate(gw["dates"]) if dt.datetime.strptime(d_, "%Y/%m/%d").date() <= new_end]
                if len(keep) < 1:
                    continue
                c["gw"] = dict(gw, dates=[gw["dates"][i] for i in keep], values=[gw["values"][i] for i in keep])
            yield c


def weather_at(cfg, dates):
    """Canonical weather records (independent of the model's own matrix) for the given dates:
    array columns MinTemp, MaxTemp, Precipitation, ReferenceET."""
    from ..config import apply_weather_xform, build_weather

    df = apply_weather_xform(build_weather(cfg["weather"]), cfg.get("weather_xform"))
    d = df.Date.values.astype("datetime64[D]")
    want = np.array([np.datetime64(x.date()) for x in dates]).astype("datetime64[D]")
    pos = np.searchsorted(d, want)
    if (pos >= len(d)).any() or (d[pos] != want).any():
        raise ValueError("date not covered by the weather table")
    return df[["MinTemp", "MaxTemp", "Precipitation", "ReferenceET"]].values.astype(float)[pos]


# ------------------------------------------------------------------------------------------------
# enumerated special constellations shared by several run-based checks (fixed cases)
# ------------------------------------------------------------------------------------------------
def back_to_back_cases():
    """Seasons that follow each other without a fallow day: a crop that needs (almost) the whole year with its latest
    harvest date on the next planting day, with and without off-season simulation, irrigated in every way."""
    out = []
    w = dict(kind="synth", first="2001-04-20", days=1500, tmean=25.0, amp=2.5, phase=0, dtr=9.0, et0=4.5, rain_p=0.3, rain_mm=10.0,
             noise=21, events=[dict(type="storm", day=200, mm=120.0), dict(type="dry", day=420, len=60)])
    for crop in ("SugarCane", "Cassava"):
        for off in (False, True):
            for irr in (dict(method=0), dict(method=1, SMT=[60.0, 60.0, 50.0, 50.0], MaxIrrSeason=600.0), dict(method=2, IrrInterval=10, AppEff=80.0),
                        dict(method=4, NetIrrSMT=60.0), dict(method=5, depth=3.0)):
                cfg = dict(start="2001/05/01", end="2004/04/30", off_season=off,
                           crop=dict(name=crop, planting="05/01", harvest="05/01", overrides={}),
                           soil=dict(type="Loam", args={}), iwc=dict(wc_type="Pct", method="Layer", depth_layer=[1], value=[40.0]),
                           irr=irr, fm=None, ffm=None, gw=None, co2=None, weather=w)
                out.append(("back2back-%s-off%d-m%d" % (crop, int(off), irr["method"]), cfg))
    return out


class ConfiguredCrop:
    """Crop parameters as the USER configured them: the override in the generated configuration, else the value of
    the documented catalogue (aquacrop.entities.crops.crop_params) -- not the model's own, possibly altered, copies."""

    DEFAULTS = {"YldWC": 0.0}

    def __init__(self, cfg):
        from ..config import PRISTINE_CROP_PARAMS

        self._cat = PRISTINE_CROP_PARAMS[cfg["crop"]["name"]]   # snapshot taken at import, not the live dictionary
        self._ov = cfg["crop"].get("overrides", {})

    def get(self, key):
        if key in self._ov:
            return self._ov[key]
        v = self._cat.get(key, self.DEFAULTS.get(key))
        return self.DEFAULTS.get(key) if v is None else v


def rejection_justified(cfg, label):
    """Is the documented rejection `label` warranted by the CONFIGURATION (reference computation, independent of
    the library)?  True / False / None (cannot be decided here: SwitchGDD conversions, borderline sums)."""
    import datetime as _dt

    from ..config import PRISTINE_CROP_PARAMS, apply_weather_xform, build_weather

    def day(sv):
        y, m, d = [int(x) for x in sv.replace("-", "/").split("/")]
        return _dt.date(y, m, d)

    try:
        start, end = day(cfg["start"]), day(cfg["end"])
    except Exception:
        return None
    if label == "gt_580_years":
        return (end.year - start.year) > 580
    if label == "weather_coverage":
        df = apply_weather_xform(build_weather(cfg["weather"]), cfg.get("weather_xform"))
        d = pd.to_datetime(df.Date)
        return bool(d.iloc[0].date() > start or d.iloc[-1].date() < end)
    if label not in ("too_few_gdd", "more_than_a_year"):
        return None
    cc = ConfiguredCrop(cfg)
    if int(cc.get("SwitchGDD") or 0) == 1:
        return None
    if int(PRISTINE_CROP_PARAMS[cfg["crop"]["name"]]["CalendarType"]) != 2:
        return False            # a calendar-day crop needs no degree days at all
    method, tb, tu, mat = int(cc.get("GDDmethod")), float(cc.get("Tbase")), float(cc.get("Tupp")), float(cc.get("Maturity"))
    df = apply_weather_xform(build_weather(cfg["weather"]), cfg.get("weather_xform"))
    dd = pd.to_datetime(df.Date).dt.date.values
    tmin, tmax = df["MinTemp"].values.astype(float), df["MaxTemp"].values.astype(float)
    if method == 1:
        g = np.clip((tmax + tmin) / 2.0, tb, tu) - tb
    elif method == 2:
        g = (np.clip(tmax, tb, tu) + np.clip(tmin, tb, tu)) / 2.0 - tb
    else:
        g = np.maximum((np.clip(tmax, tb, tu) + np.minimum(tmin, tu)) / 2.0, tb) - tb
    pm, pd_ = [int(x) for x in cfg["crop"]["planting"].split("/")]
    y = start.year
    try:
        p0 = _dt.date(y, pm, pd_)
    except ValueError:
        return None
    if p0 < start:
        y += 1
    borderline = False
    while True:
        try:
            pl = _dt.date(y, pm, pd_)
        except ValueError:
            return None
        if pl > end:
            break
        sel = (dd >= pl) & (dd <= end)
        cum = np.cumsum(g[sel])
        if len(cum) == 0:
            return None
        if abs(cum[-1] - mat) <= 1e-6 * max(1.0, mat):
            borderline = True
        elif label == "too_few_gdd" and cum[-1] <= mat:
            return True
        elif label == "more_than_a_year" and cum[-1] > mat and int(np.argmax(cum > mat)) + 1 >= 365:
            return True
        y += 1
    return None if borderline else False


def configured_irrigation(cfg):
    """Irrigation settings as configured (documented defaults where not given)."""
    r = dict(cfg.get("irr") or {"method": 0})
    m = int(r.get("method", 0))
    out = dict(method=m, AppEff=float(r.get("AppEff", 100.0)), MaxIrr=float(r.get("MaxIrr", 25.0)), MaxIrrSeason=float(r.get("MaxIrrSeason", 10000.0)),
               SMT=[float(x) for x in r.get("SMT", [100.0] * 4 if m == 1 else [0.0] * 4)], IrrInterval=int(r.get("IrrInterval", 3 if m == 2 else 0)),
               depth=float(r.get("depth", 0.0)), NetIrrSMT=float(r.get("NetIrrSMT", 80.0)), WetSurf=float(r.get("WetSurf", 100.0)))
    return out


def configured_profile(cfg, tr):
    """Per-compartment hydraulic values as CONFIGURED (built-in soil table / custom hydraulic layers); layers given
    by texture keep the model's (pedotransfer) values.  Falls back to the model's arrays if the number of
    compartments differs from the configuration (C18's subject)."""
    from ..refmodel import BUILTIN_SOIL_TABLE
    from ..refsoil import layer_of_compartments, r2

    p = {k: np.array(v, dtype=float) for k, v in tr.profile.items() if k in ("th_dry", "th_wp", "th_fc", "th_s")}
    s = cfg["soil"]
    if s["type"] == "ac_TunisLocal":
        dz0 = [0.1] * 6 + [0.15] * 5 + [0.2]
    else:
        dz0 = [r2(v) for v in s.get("args", {}).get("dz", [0.1] * 12)]
    if len(dz0) != len(p["th_s"]):
        return p
    if s["type"] == "custom":
        specs = [(l["thickness"], l.get("wp"), l.get("fc"), l.get("sat"), l["kind"] == "hyd") for l in s["layers"]]
    else:
        specs = [(t if t is not None else sum(dz0), wp, fc, sat, True) for (t, wp, fc, sat, ks) in BUILTIN_SOIL_TABLE[s["type"]][0]]
    lay = layer_of_compartments(dz0, [x[0] for x in specs])
    for i, k in enumerate(lay):
        if 1 <= k <= len(specs) and specs[k - 1][4]:
            _, wp, fc, sat, _ = specs[k - 1]
            p["th_wp"][i], p["th_fc"][i], p["th_s"][i], p["th_dry"][i] = wp, fc, sat, wp / 2.0
    return p

"""C02 -- rain and irrigation are fully partitioned at the surface."""
import numpy as np

from .. import gen
from ..engine import Result
from .common import F, base_sample, bunds_effective, cfg_simplifications, field_mgmt_for, observe, rows, weather_at

ID = "C02"
RULE = ("Hypothesis-generated configurations biased to storms (20-300 mm), bunds (incl. bunds in season but not in fallow and "
        "the reverse, with the off-season simulated), curve-number options, inhibited runoff, low-conductivity top layers and "
        "application efficiency 30-100 %; every simulated day is one evaluation. Non-trivial configuration: >=1 day with "
        "curve-number runoff (Runoff>0 with rain>0); distinct = configuration hash.")
ASSUMPTIONS = [
    "a run whose initial profile lies above saturation or below air-dry in some compartment (possible when depth points of one layer are extended into a layer with other hydraulic properties) is outside the domain of valid configurations: counted under the label start_outside_airdry_saturation, not evaluated",
    "rainfall of a day is taken from the harness's own copy of the weather table by date, not from the model's matrix",
    "applied irrigation = reported IrrDay x AppEff/100 for strategies 1,2,3,5 (0 for rainfed and net irrigation)",
    "generator keeps the effective curve number <= 100 (the property's stated domain)",
    "'the day bunds are removed' is read as: the bund height in force today (0 without bunds) is below the water ponded at the start of the day -- this includes bunds replaced by LOWER ones when the season / fallow management takes over; infiltration may then be negative by at most the water above the new height. It requires CONFIGURED bunds in force the day before that were higher than today's, so it is never permitted on the first day of a run",
    "tolerance 1e-9 relative to max(1, rain + irrigation)",
]
BUDGET = {"quick": 480, "thorough": 6000}

PROFILE = gen.profile(seasons=(1, 2), max_days=500, storms=(2, 10), storm_mm=(20, 300), p_bunds=0.5, p_fm=0.8, p_ffm=0.6,
                      p_off=0.7, low_ksat=True, p_custom_soil=0.5, p_soil_args=0.7, p_gw=0.15,
                      rel_start=(("on", 3), ("before", 5), ("after", 1)), rain=(("dry", 1), ("mid", 2), ("wet", 3)),
                      irr=((0, 2), (1, 2), (2, 2), (3, 2), (4, 1), (5, 3)), p_eff=0.7, p_gdd=0.15)


def strategy(tier):
    return gen.configs(PROFILE)


def evaluate(cfg):
    tr, res = observe(cfg)
    res.sample = base_sample(cfg, tr)
    if tr.n == 0 or not tr.start_ok:
        return res
    idx, n = rows(tr)
    if n == 0:
        return res
    m = tr.model
    irr = m._param_struct.IrrMngt
    method = int(irr.irrigation_method)
    eff = float(irr.AppEff)
    fl = tr.flux[idx]
    P = weather_at(cfg, tr.date[:n])[:, 2]
    A = fl[:, F["IrrDay"]] * eff / 100.0 if method in (1, 2, 3, 5) else np.zeros(n)
    infl, ro = fl[:, F["Infl"]], fl[:, F["Runoff"]]
    pond0 = tr.ss_before_a[:n]
    res.evals = int(n)
    scale = np.maximum(1.0, P + A)
    err = (P + A) - (infl + ro)
    bad = ~np.isfinite(err) | (np.abs(err) > 1e-9 * scale)
    if bad.any():
        i = int(np.argmax(bad))
        res.fail("partition", "step %d (%s): rain %.6g + applied irrigation %.6g != Infl %.6g + Runoff %.6g (diff %.3g)" % (
            i, tr.date[i].date(), P[i], A[i], infl[i], ro[i], err[i]))
    bad = (ro < -1e-9) | (ro > P + A + pond0 + 1e-9 * scale)
    if bad.any():
        i = int(np.argmax(bad))
        res.fail("runoff_bounds", "step %d (%s): Runoff %.6g outside [0, rain %.6g + irrigation %.6g + ponded %.6g]" % (
            i, tr.date[i].date(), ro[i], P[i], A[i], pond0[i]))
    removed = lowered = 0
    zb_prev = None
    for i in range(n):
        fm = field_mgmt_for(tr, i)
        zb = float(fm.z_bund) if bunds_effective(fm) else 0.0
        # ponded water above the bund height in force today is released as runoff: bunds removed (height 0)
        # or replaced by lower ones when the season / fallow management takes over. That needs CONFIGURED
        # bunds in force the day before that were higher than today's: never on the first day of the run
        released = max(0.0, pond0[i] - zb) if (zb_prev is not None and zb_prev > zb) else 0.0
        zb_prev = zb
        lo = -released
        if infl[i] < lo - 1e-9 * scale[i]:
            res.fail("infl_negative", "step %d (%s): Infl %.6g < %.6g (ponded at start %.6g, bund height in force today %.6g)" % (
                i, tr.date[i].date(), infl[i], lo, pond0[i], zb))
            break
        if released > 0:
            if zb == 0:
                removed += 1
            else:
                lowered += 1
        if P[i] == 0 and A[i] == 0 and pond0[i] == 0 and (abs(infl[i]) > 1e-12 or abs(ro[i]) > 1e-12):
            res.fail("nothing_in", "step %d (%s): no rain, irrigation or ponding but Infl %.3g Runoff %.3g" % (
                i, tr.date[i].date(), infl[i], ro[i]))
            break
    L = res.labels
    L.add("irr_m%d" % method)
    soil = m._param_struct.Soil
    L.add("adj_cn=%d" % int(soil.adj_cn))
    cn_runoff = (ro > 0) & (P > 0)
    if cn_runoff.any():
        L.add("runoff_with_rain")
    if (P >= 100).any():
        L.add("storm>=100mm")
    if removed:
        L.add("bunds_removed_day")
    if lowered:
        L.add("bunds_lowered_day")
    if (infl < 0).any():
        L.add("negative_infl_day")
    for key in ("fm", "ffm"):
        f = cfg.get(key) or {}
        if f.get("bunds"):
            L.add(key + "_bunds")
        if f.get("sr_inhb"):
            L.add(key + "_sr_inhb")
        if f.get("curve_number_adj"):
            L.add(key + "_cn_adj")
    ss = fl[:, F["surface_storage"]]
    if (ss > 0).any():
        L.add("ponding")
        zb = [float(field_mgmt_for(tr, i).z_bund) for i in range(n)]
        if any(ss[i] > 0 and abs(ss[i] - zb[i]) < 1e-9 and ro[i] > 0 for i in range(n)):
            L.add("bund_overtopped")
    if (A > 0).any():
        L.add("irrigation_applied")
        if eff < 100:
            L.add("efficiency<100")
    ks0 = float(tr.profile["Ksat"][0])
    if ((P + A) > ks0).any():
        L.add("input>Ksat_top")
    res.nontrivial = bool(cn_runoff.any())
    return res


def fixed_cases(tier):
    return []


simplifications = cfg_simplifications

"""C01 -- daily soil-water balance closes (mass conservation) + carry-over between days."""
import numpy as np

from .. import gen
from ..engine import Result, hyp_target
from .common import F, STOR_TH0, base_sample, bunds_effective, cfg_simplifications, observe, rows

ID = "C01"
RULE = ("Hypothesis-generated full configurations (crop x soil x weather with storms/droughts x strategy x efficiency x "
        "mulches/bunds x groundwater x initial water content x off-season), stepped one day at a time; every simulated "
        "day is one evaluation of the ledger equation and of the carry-over relation. A configuration is non-trivial when "
        "the run has >=1 day with Runoff>0 or DeepPerc>0 and >=1 day with Es+Tr>0; distinct = distinct configuration hash.")
ASSUMPTIONS = [
    "a run whose initial profile lies above saturation or below air-dry in some compartment (possible when depth points of one layer are extended into a layer with other hydraulic properties) is outside the domain of valid configurations: counted under the label start_outside_airdry_saturation, not evaluated",
    "storage before a step is read from the model state (m._init_cond.th / surface_storage) between public run_model(num_steps=1) calls",
    "end-of-day storage is read from the water_storage / water_flux rows (public getters)",
    "tolerance 1e-6 mm; on days with reported CR>0 widened by 0.05 mm per metre of profile (documented CR rounding)",
]
BUDGET = {"quick": 400, "thorough": 4000}
TOL = 1e-6

PROFILE = gen.profile(storms=(0, 5), p_gw=0.3, p_custom_soil=0.45, low_ksat=True, seasons=(1, 3), p_fm=0.55, p_ffm=0.35,
                      max_days=1100)


def strategy(tier):
    return gen.configs(PROFILE)


def evaluate(cfg):
    tr, res = observe(cfg, capture=())
    res.sample = base_sample(cfg, tr)
    if tr.n == 0 or not tr.start_ok:
        return res
    idx, n = rows(tr)
    if n == 0:
        return res
    m = tr.model
    dz = tr.profile["dz"]
    zsoil = float(dz.sum())
    method = int(m._param_struct.IrrMngt.irrigation_method)
    fl = tr.flux[idx]
    th_row = tr.storage[idx][:, STOR_TH0:]
    S0 = 1000.0 * (tr.th_before_a[:n] * dz).sum(axis=1) + tr.ss_before_a[:n]
    S1 = 1000.0 * (th_row * dz).sum(axis=1) + fl[:, F["surface_storage"]]
    irrnet = fl[:, F["IrrDay"]] if method == 4 else 0.0
    rhs = (fl[:, F["Infl"]] + irrnet + fl[:, F["CR"]] + fl[:, F["GwIn"]]
           - fl[:, F["DeepPerc"]] - fl[:, F["Es"]] - fl[:, F["Tr"]])
    resid = (S1 - S0) - rhs
    tol = np.where(fl[:, F["CR"]] > 0, TOL + 0.05 * zsoil, TOL)
    res.evals = int(n)
    finite = np.isfinite(resid)
    bad = (~finite) | (np.abs(resid) > tol)
    if bad.any():
        i = int(np.argmax(bad))
        r = {k: float(fl[i, j]) for k, j in F.items() if k not in ("time_step_counter", "season_counter")}
        res.fail("balance", "step %d (row %d, %s): storage change %.9g != fluxes %.9g (residual %.3g mm, tol %.3g); row=%s" % (
            i, idx[i], tr.date[i].date(), S1[i] - S0[i], rhs[i], resid[i], tol[i], {k: round(v, 6) for k, v in r.items()}))
    hyp_target(float(np.nanmax(np.abs(np.where(fl[:, F["CR"]] > 0, 0.0, resid)))) if n else 0.0, "max_residual")

    # rows are the end-of-day state
    for i in range(n):
        p = tr.post[i]
        if not (np.array_equal(p["th"], th_row[i]) and p["ss"] == fl[i, F["surface_storage"]]):
            res.fail("row_vs_state", "step %d: stored row differs from end-of-day state" % i)
            break
    # carry-over between consecutive simulated days
    th_init = tr.th_before_a[0]
    from .common import FMView

    fm = FMView(cfg.get("fm"))   # as configured by the user
    ss_init_season = min(float(fm.bund_water), float(fm.z_bund)) if bunds_effective(fm) else 0.0
    off = bool(m._clock_struct.sim_off_season)
    resets = 0
    for i in range(min(n, tr.n - 1)):
        a_th, a_ss = tr.post[i]["th"], tr.post[i]["ss"]
        b_th, b_ss = tr.th_before_a[i + 1], tr.ss_before_a[i + 1]
        new_season = tr.season_a[i + 1] != tr.season_a[i]
        if new_season and not off:
            resets += 1
            if not (np.array_equal(b_th, th_init) and b_ss == ss_init_season):
                res.fail("reset", "step %d->%d (new season %d, off-season skipped): state is not the configured initial state "
                         "(max |dth| %.3g, ponding %.6g vs %.6g)" % (i, i + 1, tr.season_a[i + 1], float(np.abs(b_th - th_init).max()), b_ss, ss_init_season))
                break
        else:
            if not (np.array_equal(a_th, b_th) and a_ss == b_ss):
                res.fail("carry_over", "step %d->%d: stored water not carried over unchanged (max |dth| %.3g, ponding %.6g -> %.6g)" % (
                    i, i + 1, float(np.abs(a_th - b_th).max()), a_ss, b_ss))
                break

    # classification ----------------------------------------------------------------------------
    L = res.labels
    L.add("irr_m%d" % method)
    if (fl[:, F["Runoff"]] > 0).any():
        L.add("runoff")
    if (fl[:, F["DeepPerc"]] > 0).any():
        L.add("deep_perc")
    if (fl[:, F["CR"]] > 0).any():
        L.add("capillary_rise")
    if (fl[:, F["GwIn"]] > 0).any():
        L.add("gw_inflow")
    if (fl[:, F["surface_storage"]] > 0).any():
        L.add("ponding")
    if method == 4 and (fl[:, F["IrrDay"]] > 0).any():
        L.add("net_irrigation_applied")
    if method not in (0, 4) and (fl[:, F["IrrDay"]] > 0).any():
        L.add("irrigation_applied")
        if float(m._param_struct.IrrMngt.AppEff) < 100:
            L.add("efficiency<100")
    if resets:
        L.add("season_reset")
    if off:
        L.add("off_season_simulated")
    if len(set(tr.profile["Layer"].tolist())) > 1:
        L.add("layered_soil")
    if cfg.get("fm") and cfg["fm"].get("mulches"):
        L.add("mulches")
    res.nontrivial = bool(((fl[:, F["Runoff"]] > 0) | (fl[:, F["DeepPerc"]] > 0)).any() and ((fl[:, F["Es"]] + fl[:, F["Tr"]]) > 0).any())
    res.sample["max_abs_residual_mm"] = float(np.nanmax(np.abs(resid)))
    return res


def fixed_cases(tier):
    from .common import back_to_back_cases

    return back_to_back_cases()


simplifications = cfg_simplifications

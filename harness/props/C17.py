"""C17 -- stress and growth response functions are bounded and monotone."""
import itertools

import numpy as np
from hypothesis import strategies as st

from .. import gen
from ..config import CROPS, make_model
from ..config import PRISTINE_CROP_PARAMS as crop_params
from ..engine import Result
from ..observe import init_guard

from aquacrop import Crop
from aquacrop.solution.cc_development import cc_development
from aquacrop.solution.cc_required_time import cc_required_time
from aquacrop.solution.growing_degree_day import growing_degree_day
from aquacrop.solution.temperature_stress import temperature_stress
from aquacrop.solution.water_stress import water_stress

ID = "C17"
RULE = ("(a) all 37 built-in crops x a fixed dense lattice (enumerated completely in every run): depletion -20..120 % of TAW in 2.5 % "
        "steps x ET0 {0.1,1,3,5,8,12,20} x early-senescence flag; Tmin/Tmax -30..60 C in 1.5 C steps; the three degree-day methods; "
        "time 0..3 x maturity in 120 steps; CO2 250..2500 ppm in 26 steps through model initialisation and through the season-start "
        "path; (b) Hypothesis floats for the same arguments plus perturbed canopy parameters (CC0, CCx, CGC, CDC). Oracles: range, "
        "monotonicity (adjacent lattice points / generated pairs), inverse (growth curve o time-to-reach-cover = id on the whole open range of covers, incl. directed covers within 1e-3 .. 1e-5 of CCx; inverse strictly increasing), independence of "
        "the growth curve from CCx0 (called as the model does with CCx0 in {CCx/0.98, /0.9, /0.7, /0.5}, fine time grid around the "
        "half-cover time), neutral point "
        "(fCO2(369.41)=1), agreement of the two fCO2 code paths. One evaluation per argument tuple. Non-trivial tuple: the function "
        "value is strictly inside its range (not at a clamp); distinct = (crop, function, arguments).")
ASSUMPTIONS = [
    "functions are called directly (aquacrop.solution.*) with the parameters of Crop(name); the CO2 factor is read from the model's season crop after initialisation with CO2(constant_conc=True, current_concentration=c)",
    "tolerances: 1e-12 on ranges and monotonicity, 1e-9 on the inverse",
    "the inverse is required for every cover CC0 < c <= CCx - 1e-6 (the growth curve approaches CCx asymptotically; closer to CCx the subtraction CCx - c loses the digits the 1e-9 comparison needs); covers up to 0.98 CCx come from the time lattice, covers above from directed points CCx(1-r), CCx-g down to a gap of 1e-5; the inverse must also be strictly increasing in the cover",
]
BUDGET = {"quick": 3200, "thorough": 64000}
EXHAUSTIVE_NOTE = "sub-space (a) (37 crops x fixed lattice) is enumerated completely in every run; sub-space (b) is sampled"
EPS = 1e-12
DEPL = np.arange(-20.0, 120.0001, 2.5) / 100.0
ET0S = [0.1, 1.0, 3.0, 5.0, 8.0, 12.0, 20.0]
TEMPS = np.arange(-30.0, 60.0001, 1.5)
CO2S = [250.0, 300.0, 340.0, 369.41, 369.42, 380.0, 400.0, 450.0, 500.0, 549.0, 550.0, 551.0, 600.0, 700.0, 800.0, 1000.0, 1200.0,
        1500.0, 1800.0, 1999.0, 2000.0, 2001.0, 2200.0, 2500.0]


def canopy_params(c):
    cal = int(c.CalendarType) == 1
    cgc = float(c.CGC_CD if cal else c.CGC)
    cdc = float(c.CDC_CD if cal else c.CDC)
    mat = float(c.MaturityCD if cal else c.Maturity)
    return float(c.CC0), float(c.CCx), cgc, cdc, mat


def check_water(res, name, c, depl, taw, et0, tes, beta, keys, tag):
    prev = None
    n = 0
    for d in depl:
        ks = water_stress(c.p_up, c.p_lo, c.ETadj, c.beta, c.fshape_w, tes, d * taw, taw, et0, beta)
        ks = [float(x) for x in ks]
        n += 1
        if not all(np.isfinite(ks)) or min(ks) < -EPS or max(ks) > 1 + EPS:
            res.fail("water_stress_range", "%s: water stress coefficients %s outside [0,1] at depletion %.4g x TAW %.4g, ET0 %.4g" % (name, ks, d, taw, et0))
            return n
        if prev is not None and any(a > b + EPS for a, b in zip(ks, prev)):
            res.fail("water_stress_monotone", "%s: a water stress coefficient increases when depletion rises to %.4g x TAW (ET0 %.4g, early senescence %s): %s -> %s" % (name, d, et0, tes, prev, ks))
            return n
        prev = ks
        if any(1e-9 < k < 1 - 1e-9 for k in ks):
            keys.add("%s/ws/%s/%.4f" % (name, tag, d))
    return n


def check_temperature(res, name, c, temps, keys):
    n = 0
    ph = pc = None
    for t in temps:
        h, _ = temperature_stress(c, t, 10.0)
        _, cold = temperature_stress(c, 30.0, t)
        h, cold = float(h), float(cold)
        n += 2
        if not (-EPS <= h <= 1 + EPS and -EPS <= cold <= 1 + EPS):
            res.fail("temperature_stress_range", "%s: pollination coefficients heat %.6g / cold %.6g outside [0,1] at %.4g C" % (name, h, cold, t))
            return n
        if ph is not None and h > ph + EPS:
            res.fail("heat_stress_monotone", "%s: heat coefficient rises %.6g -> %.6g when Tmax rises to %.4g" % (name, ph, h, t))
            return n
        if pc is not None and cold < pc - EPS:
            res.fail("cold_stress_monotone", "%s: cold coefficient falls %.6g -> %.6g when Tmin rises to %.4g" % (name, pc, cold, t))
            return n
        ph, pc = h, cold
        if 1e-9 < h < 1 - 1e-9:
            keys.add("%s/heat/%.2f" % (name, t))
        if 1e-9 < cold < 1 - 1e-9:
            keys.add("%s/cold/%.2f" % (name, t))
    return n


def check_gdd(res, name, c, temps, keys, methods=(1, 2, 3)):
    n = 0
    span = float(c.Tupp) - float(c.Tbase)
    for meth in methods:
        for tmin in temps[::3]:
            prev = None
            for tmax in temps:
                if tmax < tmin:
                    continue
                g = float(growing_degree_day(meth, c.Tupp, c.Tbase, tmax, tmin))
                n += 1
                if not (-EPS <= g <= span + EPS):
                    res.fail("gdd_range", "%s method %d: degree days %.6g outside [0, %.4g] at Tmax %.4g Tmin %.4g" % (name, meth, g, span, tmax, tmin))
                    return n
                if prev is not None and g < prev - EPS:
                    res.fail("gdd_monotone_tmax", "%s method %d: degree days fall %.6g -> %.6g when Tmax rises to %.4g (Tmin %.4g)" % (name, meth, prev, g, tmax, tmin))
                    return n
                prev = g
                if 1e-9 < g < span - 1e-9:
                    keys.add("%s/gdd%d/%.2f/%.2f" % (name, meth, tmax, tmin))
        for tmax in temps[::3]:
            prev = None
            for tmin in temps:
                if tmin > tmax:
                    break
                g = float(growing_degree_day(meth, c.Tupp, c.Tbase, tmax, tmin))
                n += 1
                if prev is not None and g < prev - EPS:
                    res.fail("gdd_monotone_tmin", "%s method %d: degree days fall %.6g -> %.6g when Tmin rises to %.4g (Tmax %.4g)" % (name, meth, prev, g, tmin, tmax))
                    return n
                prev = g
    return n


def check_canopy(res, name, cc0, ccx, cgc, cdc, times, keys, tag=""):
    n = 0
    # the model calls the curves with a stress-adjusted maximum CCx below the crop's CCx0 (potential canopy 0.98 CCx0,
    # adjusted canopy after stress): the growth curve for CCx must not depend on CCx0, stay monotone and inside [0, CCx]
    # -- on the given times and on a fine grid around the half-cover time where its two branches meet
    if cc0 > 0 and cgc > 0 and ccx > 2 * cc0:
        t_half = float(np.log(ccx / 2.0 / cc0) / cgc)
        for ratio in (0.98, 0.9, 0.7, 0.5):
            ccx0 = min(1.0, ccx / ratio)
            width = float(np.log(ccx0 / ccx) / cgc)
            fine = list(t_half + np.linspace(-1.0, width + 1.0, 25))
            prevv = None
            for t in sorted(set([float(x) for x in times] + fine)):
                if t < 0:
                    continue
                v = float(cc_development(cc0, ccx, cgc, cdc, t, "Growth", ccx0))
                ref = float(cc_development(cc0, ccx, cgc, cdc, t, "Growth", ccx))
                n += 1
                if abs(v - ref) > 1e-12:
                    res.fail("growth_curve_depends_on_ccx0", "%s%s: growth curve for CCx %.6g at t=%.6g is %.9g with CCx0 %.6g but %.9g with CCx0 = CCx" % (
                        name, tag, ccx, t, v, ccx0, ref))
                    return n
                if not (-EPS <= v <= ccx + EPS) or (prevv is not None and v < prevv - EPS):
                    res.fail("growth_curve_monotone", "%s%s (CCx0 %.6g): growth curve %.9g after %.9g at t=%.6g, CCx %.6g" % (name, tag, ccx0, v, prevv if prevv is not None else -1, t, ccx))
                    return n
                prevv = v
                if t_half - 1.0 <= t <= t_half + width + 1.0:
                    keys.add("%s/grow-ccx0%s/%.2f/%.3f" % (name, tag, ratio, t))
            prevv = None
            for t in times:
                v = float(cc_development(cc0, ccx, cgc, cdc, t, "Decline", ccx0))
                n += 1
                if not (-EPS <= v <= ccx + EPS) or (prevv is not None and v > prevv + EPS):
                    res.fail("decline_curve_monotone", "%s%s (CCx0 %.6g): decline curve %.9g after %.9g at t=%.4g, CCx %.6g" % (name, tag, ccx0, v, prevv if prevv is not None else -1, t, ccx))
                    return n
                prevv = v
    prev = None
    for t in times:
        v = float(cc_development(cc0, ccx, cgc, cdc, t, "Growth", ccx))
        n += 1
        if not (-EPS <= v <= ccx + EPS):
            res.fail("growth_curve_range", "%s%s: growth curve %.9g outside [0, CCx %.4g] at t=%.4g" % (name, tag, v, ccx, t))
            return n
        if prev is not None and v < prev - EPS:
            res.fail("growth_curve_monotone", "%s%s: growth curve falls %.9g -> %.9g at t=%.4g" % (name, tag, prev, v, t))
            return n
        prev = v
        if cc0 + 1e-9 < v < 0.98 * ccx:
            treq = float(cc_required_time(v, cc0, ccx, cgc, cdc, "CGC"))
            back = float(cc_development(cc0, ccx, cgc, cdc, treq, "Growth", ccx))
            n += 1
            if not (abs(back - v) <= 1e-9 and abs(treq - t) <= 1e-6 * max(1.0, t)):
                res.fail("growth_curve_inverse", "%s%s: time-to-reach-cover(%.9g) = %.9g, growth curve there = %.9g (original time %.9g)" % (name, tag, v, treq, back, t))
                return n
            keys.add("%s/grow%s/%.4f" % (name, tag, t))
    # covers chosen directly (not through a time): the whole open range up to just below CCx, where the time grid
    # puts no point -- the inverse must reproduce the cover and be strictly increasing in it
    covers = sorted(set([ccx * (1.0 - r) for r in (0.45, 0.3, 0.1, 0.03, 0.021, 0.019, 0.01, 3e-3, 1e-3, 5e-4, 1e-4, 1e-5)] +
                        [ccx - g for g in (2e-3, 1.5e-3, 9e-4, 5e-4, 1e-4, 1e-5)] + [cc0 * f for f in (1.5, 3.0, 10.0)]))
    prevc = prevt = None
    for v in covers:
        if not (cc0 * (1.0 + 1e-9) < v <= ccx - 1e-6):
            continue
        treq = float(cc_required_time(v, cc0, ccx, cgc, cdc, "CGC"))
        back = float(cc_development(cc0, ccx, cgc, cdc, treq, "Growth", ccx))
        n += 1
        if not abs(back - v) <= 1e-9:
            res.fail("growth_curve_inverse", "%s%s: time-to-reach-cover(%.9g) = %.9g, growth curve there = %.9g (CCx %.9g)" % (name, tag, v, treq, back, ccx))
            return n
        if prevt is not None and not treq > prevt:
            res.fail("inverse_not_increasing", "%s%s: time-to-reach-cover(%.9g) = %.9g is not above time-to-reach-cover(%.9g) = %.9g (CCx %.9g)" % (
                name, tag, v, treq, prevc, prevt, ccx))
            return n
        prevc, prevt = v, treq
        if v >= 0.98 * ccx:
            keys.add("%s/inv-top%s/%.9f" % (name, tag, v))
    prev = None
    for t in times:
        v = float(cc_development(cc0, ccx, cgc, cdc, t, "Decline", ccx))
        n += 1
        if not (-EPS <= v <= ccx + EPS):
            res.fail("decline_curve_range", "%s%s: decline curve %.9g outside [0, CCx %.4g] at t=%.4g" % (name, tag, v, ccx, t))
            return n
        if prev is not None and v > prev + EPS:
            res.fail("decline_curve_monotone", "%s%s: decline curve rises %.9g -> %.9g at t=%.4g" % (name, tag, prev, v, t))
            return n
        prev = v
        if 1e-9 < v < ccx - 1e-9:
            keys.add("%s/decl%s/%.4f" % (name, tag, t))
    return n


_W = dict(kind="synth", first="2000-04-20", days=420, tmean=24.0, amp=3.0, phase=0, dtr=8.0, et0=4.0, rain_p=0.3, rain_mm=8.0, noise=1, events=[])


def fco2_both_paths(name, conc, ref=None):
    """(fCO2 from model initialisation, fCO2 from the season-start reset) for a constant concentration."""
    from aquacrop.timestep.reset_initial_conditions import reset_initial_conditions

    tb = float(crop_params[name]["Tbase"])
    w = dict(_W)
    w["tmean"] = tb + 14.0
    cfg = dict(start="2000/05/01", end="2001/04/25", off_season=False, crop=dict(name=name, planting="05/01", harvest=None, overrides={}),
               soil=dict(type="Loam", args={}), iwc=None, irr=None, fm=None, ffm=None, gw=None,
               co2=({"constant": conc} if ref is None else {"constant": conc, "ref": ref}), weather=w)
    m = make_model(cfg)
    with init_guard():
        m._initialize()
    c0 = m._param_struct.Seasonal_Crop_List[0]
    a = float(c0.fCO2)
    m._clock_struct.season_counter = 0
    reset_initial_conditions(m._clock_struct, m._init_cond, m._param_struct, m._weather, m.crop)
    b = float(m._param_struct.Seasonal_Crop_List[0].fCO2)
    return a, b


def check_fco2(res, name, concs, keys, ref=None):
    n = 0
    prev = None
    refc = 369.41 if ref is None else float(ref)
    for conc in concs:
        try:
            a, b = fco2_both_paths(name, conc, ref)
        except AssertionError:
            res.labels.add("fco2_carrier_run_rejected")
            return n  # documented rejection of the tiny carrier run (thermal crop): CO2 path not reachable here
        n += 2
        if abs(a - b) > 1e-12:
            res.fail("fco2_paths_disagree", "%s: CO2 factor at %.2f ppm is %.12g at initialisation but %.12g at a season start" % (name, conc, a, b))
            return n
        if abs(conc - refc) < 1e-9 and abs(a - 1.0) > 1e-12:
            res.fail("fco2_reference", "%s: CO2 factor at the configured reference concentration %.2f ppm is %.12g" % (name, refc, a))
            return n
        if prev is not None and a < prev[1] - 1e-12:
            res.fail("fco2_monotone", "%s: CO2 factor falls %.9g -> %.9g when the concentration rises %.2f -> %.2f ppm" % (name, prev[1], a, prev[0], conc))
            return n
        prev = (conc, a)
        if abs(a - 1.0) > 1e-9:
            keys.add("%s/fco2/%.2f" % (name, conc))
    return n


def eval_lattice(name):
    res = Result()
    c = Crop(name, planting_date="05/01")
    keys = set()
    n = 0
    for et0 in ET0S:
        for tes, beta in ((0.0, False), (5.0, True)):
            n += check_water(res, name, c, DEPL, 150.0, et0, tes, beta, keys, "%.1f/%d" % (et0, int(beta)))
    n += check_water(res, name, c, DEPL, 12.5, 5.0, 0.0, True, keys, "smallTAW")
    n += check_temperature(res, name, c, TEMPS, keys)
    n += check_gdd(res, name, c, TEMPS, keys)
    cc0, ccx, cgc, cdc, mat = canopy_params(c)
    times = np.linspace(0.0, 3.0 * mat, 121)
    n += check_canopy(res, name, cc0, ccx, cgc, cdc, times, keys)
    n += check_fco2(res, name, CO2S, keys)
    # a user-configured reference concentration: the factor must be 1 THERE and non-decreasing around it
    n += check_fco2(res, name, [330.0, 380.0, 400.0, 420.0, 500.0, 700.0], keys, ref=400.0)
    res.evals = n
    res.keys = keys
    res.nontrivial = bool(keys)
    res.labels.add("lattice")
    res.sample = {"crop": name, "lattice_tuples": n, "nontrivial_tuples": len(keys)}
    return res


@st.composite
def cases(draw):
    name = draw(st.sampled_from(CROPS))
    fl = lambda a, b: st.floats(a, b, allow_nan=False, allow_infinity=False)
    d = sorted(draw(st.lists(fl(-0.2, 1.2), min_size=2, max_size=6)))
    t = sorted(draw(st.lists(fl(-30.0, 60.0), min_size=2, max_size=6)))
    tt = sorted(draw(st.lists(fl(0.0, 3.0), min_size=2, max_size=8)))
    return dict(crop=name, depl=d, taw=draw(fl(1.0, 400.0)), et0=draw(fl(0.1, 20.0)), tes=draw(st.sampled_from([0.0, 3.0])),
                beta=draw(st.booleans()), temps=t, tmin=draw(fl(-30.0, 60.0)), times=tt,
                cc0f=draw(fl(0.5, 2.0)), ccx=draw(fl(0.3, 0.99)), cgcf=draw(fl(0.5, 2.0)), cdcf=draw(fl(0.5, 2.0)),
                co2=sorted(draw(st.lists(fl(250.0, 2500.0), min_size=2, max_size=2))), do_co2=draw(st.integers(0, 7)) == 0)


def strategy(tier):
    return cases()


def evaluate(case):
    if "lattice" in case:
        return eval_lattice(case["lattice"])
    res = Result()
    name = case["crop"]
    c = Crop(name, planting_date="05/01")
    keys = set()
    n = 0
    n += check_water(res, name, c, case["depl"], case["taw"], case["et0"], case["tes"], case["beta"], keys, "h%r" % (case["taw"],))
    n += check_temperature(res, name, c, case["temps"], keys)
    # degree days: generated pairs
    span = float(c.Tupp) - float(c.Tbase)
    for meth in (1, 2, 3):
        prev = None
        for tmax in case["temps"]:
            tmin = min(case["tmin"], tmax)
            g = float(growing_degree_day(meth, c.Tupp, c.Tbase, tmax, tmin))
            n += 1
            if not (-EPS <= g <= span + EPS):
                res.fail("gdd_range", "%s method %d: degree days %.6g outside [0, %.4g] at Tmax %.6g Tmin %.6g" % (name, meth, g, span, tmax, tmin))
            if prev is not None and tmin == case["tmin"] and g < prev - EPS:
                res.fail("gdd_monotone_tmax", "%s method %d: degree days fall %.6g -> %.6g when Tmax rises to %.6g" % (name, meth, prev, g, tmax))
            if tmin == case["tmin"]:
                prev = g
            if 1e-9 < g < span - 1e-9:
                keys.add("%s/gdd%d/%r" % (name, meth, tmax))
    cc0, ccx, cgc, cdc, mat = canopy_params(c)
    cc0p = min(cc0 * case["cc0f"], 0.4 * case["ccx"])
    n += check_canopy(res, name, cc0p, case["ccx"], cgc * case["cgcf"], cdc * case["cdcf"], [t * mat for t in case["times"]], keys, tag="~%r" % (case["ccx"],))
    if case["do_co2"]:
        n += check_fco2(res, name, case["co2"], keys)
        res.labels.add("fco2_pair")
    res.evals = n
    res.keys = keys
    res.nontrivial = bool(keys)
    res.sample = {"crop": name, "depl": case["depl"][:3], "taw": case["taw"], "et0": case["et0"], "temps": case["temps"][:3], "ccx": case["ccx"]}
    res.labels.add("generated")
    return res


def fixed_cases(tier):
    return [("lattice-" + n, {"lattice": n}) for n in CROPS]

"""C15 -- weather is bound by date and by column name."""
import copy
import itertools

import pandas as pd

from hypothesis import strategies as st

from .. import gen
from ..config import cfg_hash, describe
from ..engine import Result
from ..observe import compare_outputs
from .common import cfg_simplifications
from .meta import note_base_failure, run_or_classify

ID = "C15"
RULE = ("(a) all 120 permutations of the five required columns on a fixed 2-season configuration (enumerated in every run, each "
        "combined with a rotating index / extra-column variant); (b) Hypothesis: generated configurations (calendar and thermal "
        "crops, 1-2 seasons) x generated re-presentations of the weather table: column permutation, 0-3 unrelated columns "
        "(numeric, integer, string, datetime, numeric with missing values, objects with None) at any position, re-indexing (shifted integers, dates, reversed labels, string "
        "labels, REPEATED labels as after concatenating yearly tables, one constant label; rows stay in date order), extra leading / trailing rows with absurd values, float32 round trip excluded; in 30 % of the cases the table itself (canonical and re-presented) holds 1-3 of the variables as whole numbers in INTEGER columns (mixed dtypes). Oracles: "
        "all three daily tables and the summary bitwise equal to the run on the canonical table; AND on every simulated day the "
        "record handed to the daily solution (observed by a wrapper) is exactly the canonical record carrying that day's date. One evaluation per pair. "
        "Non-trivial pair: the transformation moves at least one required column to another position; distinct = (configuration, "
        "transformation).")
ASSUMPTIONS = [
    "rows out of date order and duplicated dates are not equivalent tables and are not generated",
    "extra rows lie strictly outside the simulation window",
]
BUDGET = {"quick": 300, "thorough": 3000}
EXHAUSTIVE_NOTE = "sub-space (a), the 120 column permutations, is enumerated completely on one configuration in every run"
PROFILE = gen.profile(seasons=(1, 2), max_days=500, p_gdd=0.4, p_custom_soil=0.1, p_dz=0.05, p_gw=0.1, p_fm=0.2, p_ffm=0.1, pad=(0, 25))

FIXED_CFG = dict(start="2003/03/20", end="2004/12/15", off_season=True,
                 crop=dict(name="Barley", planting="04/01", harvest=None, overrides={}),
                 soil=dict(type="SandyLoam", args={}), iwc=None, irr=dict(method=1, SMT=[60.0, 60.0, 50.0, 40.0]), fm=None, ffm=None,
                 gw=None, co2=None,
                 weather=dict(kind="synth", first="2003-03-01", days=700, tmean=11.0, amp=6.0, phase=10, dtr=9.0, et0=3.5, rain_p=0.3,
                              rain_mm=8.0, noise=11, events=[dict(type="storm", day=60, mm=70.0)]))


@st.composite
def xforms(draw):
    ops = []
    if draw(st.integers(0, 9)) < 8:
        ops.append(dict(op="perm", order=list(draw(st.permutations([0, 1, 2, 3, 4])))))
    if draw(st.integers(0, 9)) < 5:
        ops.append(dict(op="pad", before=draw(st.integers(0, 60)), after=draw(st.integers(0, 60)), value=float(draw(st.sampled_from([99.0, 1e6, 0.0])))))
    for j in range(draw(st.integers(0, 3))):
        ops.append(dict(op="extra", kind=draw(st.sampled_from(["num", "int", "str", "date", "num_nan", "obj_none"])), pos=draw(st.integers(0, 8)), name="extra%d" % j))
    if draw(st.integers(0, 9)) < 6:
        ops.append(dict(op="index", kind=draw(st.sampled_from(["shift", "date", "rev", "str", "dup", "dup", "const"])), by=draw(st.sampled_from([1, 2, 7, 30, 365, 366, 5000]))))
    if not ops:
        ops.append(dict(op="perm", order=[4, 3, 2, 1, 0]))
    return ops


@st.composite
def cases(draw):
    cfg = draw(gen.configs(PROFILE))
    xf = draw(xforms())
    if draw(st.integers(0, 9)) < 3:
        # the table itself (canonical and re-presented alike) holds some variables as whole numbers in integer columns:
        # a re-indexed / permuted table of mixed dtypes must still be bound by date and name
        cols = draw(st.lists(st.sampled_from(["Precipitation", "Precipitation", "MinTemp", "MaxTemp", "ReferenceET"]), min_size=1, max_size=3, unique=True))
        if cols:
            cfg["weather_xform"] = list(cfg.get("weather_xform") or []) + [dict(op="intcols", cols=sorted(cols))]
    return dict(cfg=cfg, xform=xf)


def strategy(tier):
    return cases()


def fixed_cases(tier):
    out = []
    extras = [None, dict(op="index", kind="rev"), dict(op="extra", kind="str", pos=0, name="junk"), dict(op="index", kind="date"),
              dict(op="index", kind="dup", by=365), dict(op="index", kind="const"),
              dict(op="extra", kind="num", pos=2, name="junk2"), dict(op="extra", kind="num_nan", pos=5, name="snow"), dict(op="pad", before=30, after=30, value=99.0)]
    for i, perm in enumerate(itertools.permutations([0, 1, 2, 3, 4])):
        ops = [dict(op="perm", order=list(perm))]
        if extras[i % len(extras)]:
            ops.append(extras[i % len(extras)])
        out.append(("perm-%d" % i, dict(cfg=FIXED_CFG, xform=ops)))
    return out


_BASE = {}


def base_outputs(cfg):
    h = cfg_hash(cfg)
    if h not in _BASE:
        if len(_BASE) > 4:
            _BASE.clear()
        _BASE[h] = run_or_classify(cfg)
    return _BASE[h]


def final_column_order(xform):
    """positions of the five required columns after the transformation (for the non-triviality rule)"""
    cols = ["MinTemp", "MaxTemp", "Precipitation", "ReferenceET", "Date"]
    for op in xform:
        if op["op"] == "perm":
            cols = [c for c in ["MinTemp", "MaxTemp", "Precipitation", "ReferenceET", "Date"]]
            cols = [cols[i] for i in op["order"]] + []
        elif op["op"] == "extra":
            pos = min(int(op["pos"]), len(cols))
            cols = cols[:pos] + [op["name"]] + cols[pos:]
    return cols


def evaluate(case):
    res = Result()
    cfg, xf = case["cfg"], case["xform"]
    res.sample = {"cfg": describe(cfg), "xform": xf, "hash": cfg_hash(case)}
    base, info = base_outputs(cfg)
    if base is None:
        return note_base_failure(res, info)
    c2 = copy.deepcopy(cfg)
    c2["weather_xform"] = list(cfg.get("weather_xform") or []) + xf
    from ..observe import outputs_of
    from .common import exception_of, observe, rows, weather_at

    tr, r2 = observe(c2, capture=("wx",))
    exc = exception_of(tr)
    if exc is not None:
        info2 = sorted(r2.labels)[0] if r2.labels else type(exc).__name__
        res.fail("transformed_raises", "equivalent weather table %s: run raises / is rejected (%s) although the canonical table runs" % (xf, info2))
    else:
        d = compare_outputs(outputs_of(tr.model), base)
        if d:
            res.fail("transformed_differs", "equivalent weather table %s changes the results: %s" % (xf, d))
        # absolute binding: the record handed to each simulated day is the record carrying that day's date
        idx, n = rows(tr)
        n = min(n, len(tr.wx))
        if n:
            W = weather_at(cfg, tr.date[:n])   # canonical table, by date
            for i in range(n):
                used = tr.wx[i]
                vals = [float(used[0]), float(used[1]), float(used[2]), float(used[3])]
                if vals != [W[i, 0], W[i, 1], W[i, 2], W[i, 3]] or (used[4] is not None and pd.Timestamp(used[4]) != tr.date[i]):
                    res.fail("wrong_record_for_date", "step %d simulates %s but is given the weather record (Tmin %.4g, Tmax %.4g, P %.4g, ET0 %.4g, date %s); "
                             "the record of that date is (%.4g, %.4g, %.4g, %.4g)" % (i, tr.date[i].date(), vals[0], vals[1], vals[2], vals[3], used[4],
                                                                                       W[i, 0], W[i, 1], W[i, 2], W[i, 3]))
                    break
            res.evals = 1
    order = final_column_order(xf)
    canon = ["MinTemp", "MaxTemp", "Precipitation", "ReferenceET", "Date"]
    moved = any(order.index(c) != canon.index(c) for c in canon)
    for op in xf:
        res.labels.add(op["op"] + (":" + op["kind"] if "kind" in op else ""))
    if any(op.get("op") == "intcols" for op in (cfg.get("weather_xform") or [])):
        res.labels.add("integer_columns")
    if moved:
        res.labels.add("required_column_moved")
    if cfg["crop"]["name"] in gen.GDD_CROPS:
        res.labels.add("thermal")
    res.nontrivial = bool(moved)
    return res


def simplifications(case):
    xf = case["xform"]
    for i in range(len(xf)):
        if len(xf) > 1:
            yield dict(cfg=case["cfg"], xform=xf[:i] + xf[i + 1:])
    for c in cfg_simplifications(case["cfg"]):
        yield dict(cfg=c, xform=xf)

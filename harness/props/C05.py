"""C05 -- crop state stays inside its configured envelope."""
import numpy as np

from .. import gen
from ..engine import Result, hyp_target
from .common import F, G, STOR_TH0, base_sample, cfg_simplifications, observe, rows, weather_at

ID = "C05"
RULE = ("Hypothesis-generated configurations over all 37 crops (calendar and thermal), CCx/Zmin/Zmax/HI0/dHI0 overrides, 1-3 layer "
        "soils with penetrability 0-100 %, constant and time-varying water tables above/below Zmin, cold snaps / heat waves and "
        "drought; one evaluation per simulated day (all envelope and monotonicity relations of that day). Non-trivial "
        "configuration: some in-season day shows stress (Tr < 0.99 TrPot, or canopy below the no-stress canopy), or the roots "
        "meet a restrictive layer or the water-table bound is active; distinct = configuration hash.")
ASSUMPTIONS = [
    "a run whose initial profile lies above saturation or below air-dry in some compartment (possible when depth points of one layer are extended into a layer with other hydraulic properties) is outside the domain of valid configurations: counted under the label start_outside_airdry_saturation, not evaluated",
    "crop parameters (CCx, Zmin, Zmax, HI0, dHI0, Tbase, Tupp) are the CONFIGURED ones (override in the generated configuration, else the catalogue value), not the model's copies",
    "a negative dHI0 in the catalogue (-9 = not applicable: SugarCane, AlfalfaGDD) is read as 'no increase allowed'",
    "tolerances: 1e-9 absolute on dimensionless quantities, 1e-9 relative on the cumulative degree-day sum, 1e-12 on root shrinkage",
]
BUDGET = {"quick": 450, "thorough": 5000}
HI_PRE = [c for c in gen.CROPS if float(gen.crop_params[c].get("dHI_pre", 0) or 0) > 0]   # crops whose HI can rise before flowering
PROFILE = gen.profile(crops=HI_PRE + list(gen.CROPS) * 2, p_override=0.6, pen=True, p_custom_soil=0.5, p_gw=0.35, gw_shallow=True, temp_events=(0, 3),
                      dry_spells=(0, 2), seasons=(1, 2), max_days=800, switches=True,
                      rain=(("dry", 3), ("mid", 2), ("wet", 2)), irr=((0, 4), (1, 4), (2, 1), (3, 1), (4, 2), (5, 2)), p_cap=0.15,
                      iwc=(("FC", 2), ("WP", 2), ("SAT", 1), ("Pct", 4), ("Num", 1), ("Depth", 2)))
EPS = 1e-9


def strategy(tier):
    return gen.configs(PROFILE)


class Configured:
    """Envelope parameters as the USER configured them (override in the configuration, else the catalogue value);
    the model's own per-season crop object is consulted only for the calendar type."""

    def __init__(self, cfg, model_crop):
        from ..config import PRISTINE_CROP_PARAMS

        cat = PRISTINE_CROP_PARAMS[cfg["crop"]["name"]]   # catalogue snapshot taken at import, not the live dictionary
        ov = cfg["crop"].get("overrides", {})
        for k in ("CCx", "Zmin", "Zmax", "HI0", "dHI0", "Tbase", "Tupp"):
            setattr(self, k, float(ov.get(k, cat[k])))
        self.CalendarType = int(model_crop.CalendarType)


def restrictive(tr):
    pen = tr.profile["Penetrability"]
    lay = tr.profile["Layer"]
    return bool(((pen < 100) & (lay > 1)).any())


def evaluate(cfg):
    tr, res = observe(cfg)
    res.sample = base_sample(cfg, tr)
    if tr.n == 0 or not tr.start_ok:
        return res
    idx, n = rows(tr)
    if n == 0:
        return res
    m = tr.model
    fl, gr = tr.flux[idx], tr.growth[idx]
    res.evals = int(n)
    L = res.labels
    crops = m._param_struct.Seasonal_Crop_List
    if not np.isfinite(gr).all():
        i, c = np.argwhere(~np.isfinite(gr))[0]
        res.fail("nonfinite", "step %d: crop growth column %d is not finite" % (i, c))
        return res
    dap = gr[:, G["dap"]]
    season = gr[:, G["season_counter"]].astype(int)
    ins = dap > 0
    # ---- outside a growing season (the growing-season flag of the water-storage table) -----------------
    off = tr.storage[idx][:n, 1] == 0
    if (off & ins).any() or ((~off) & (~ins)).any():
        j = int(np.argmax((off & ins) | ((~off) & (~ins))))
        res.fail("offseason:dap", "step %d (%s): growing-season flag %s but days after planting %d" % (j, tr.date[j].date(), not off[j], int(dap[j])))
    for name in ("canopy_cover", "biomass", "DryYield", "FreshYield"):
        col = gr[off, G[name]]
        if (col != 0).any():
            j = int(np.flatnonzero(off)[np.argmax(col != 0)])
            res.fail("offseason:" + name, "step %d (%s) outside a growing season: %s = %.6g" % (j, tr.date[j].date(), name, gr[j, G[name]]))
    restr = restrictive(tr)
    wt = int(m._param_struct.water_table) == 1
    W = None
    stress = False
    bound_active = False
    for k in sorted(set(season[ins].tolist())):
        sel = np.flatnonzero(ins & (season == k))
        if k < 0 or k >= len(crops) or len(sel) == 0:
            res.fail("season_index", "in-season rows with season counter %d" % k)
            continue
        c = Configured(cfg, crops[k])
        g = gr[sel]
        f = fl[sel]
        cc, ccns = g[:, G["canopy_cover"]], g[:, G["canopy_cover_ns"]]
        tag = "s%d " % k

        def first(mask):
            j = int(np.argmax(mask))
            return sel[j], j

        if ((cc < -EPS) | (cc > c.CCx + EPS)).any():
            i, j = first((cc < -EPS) | (cc > c.CCx + EPS))
            res.fail("cc_range", tag + "step %d: canopy cover %.9g outside [0, CCx %.4g]" % (i, cc[j], c.CCx))
        if (cc > ccns + EPS).any():
            i, j = first(cc > ccns + EPS)
            res.fail("cc_gt_ns", tag + "step %d: canopy cover %.9g > no-stress canopy %.9g" % (i, cc[j], ccns[j]))
        # ---- roots -----------------------------------------------------------------------------
        zr = g[:, G["z_root"]]
        zgw = f[:, F["z_gw"]]
        zmin, zmax = float(c.Zmin), float(c.Zmax)
        tbl = wt & (zgw > 0) if wt else np.zeros(len(zr), bool)
        cap = np.where(tbl, np.maximum(zgw, zmin), np.inf)
        at_cap = tbl & (np.abs(zr - cap) < 1e-12)
        bound_active |= bool(at_cap.any())
        if ((zr < zmin - EPS) | (zr > zmax + EPS)).any():
            i, j = first((zr < zmin - EPS) | (zr > zmax + EPS))
            res.fail("zroot_range", tag + "step %d: rooting depth %.9g outside [Zmin %.4g, Zmax %.4g]" % (i, zr[j], zmin, zmax))
        d = np.diff(zr)
        shr = (d < -1e-12) & ~at_cap[1:]
        if shr.any():
            j = int(np.argmax(shr)) + 1
            res.fail("zroot_shrinks", tag + "step %d: rooting depth shrinks %.9g -> %.9g with no water-table bound active" % (sel[j], zr[j - 1], zr[j]))
        if (zr > cap + EPS).any():
            i, j = first(zr > cap + EPS)
            res.fail("zroot_below_table", tag + "step %d: rooting depth %.6g below water table %.6g (Zmin %.4g)" % (i, zr[j], zgw[j], zmin))
        # ---- harvest index -----------------------------------------------------------------------
        hi, hia = g[:, G["harvest_index"]], g[:, G["harvest_index_adj"]]
        if (np.diff(hi) < -EPS).any():
            j = int(np.argmax(np.diff(hi) < -EPS)) + 1
            res.fail("hi_decreases", tag + "step %d: harvest index %.9g -> %.9g" % (sel[j], hi[j - 1], hi[j]))
        if (hi > c.HI0 + EPS).any():
            i, j = first(hi > c.HI0 + EPS)
            res.fail("hi_gt_hi0", tag + "step %d: harvest index %.9g > HI0 %.4g" % (i, hi[j], c.HI0))
        lim = c.HI0 * (1 + max(float(c.dHI0), 0.0) / 100.0)
        if lim > 0 and len(hia):
            hyp_target(float(hia.max() / lim), "HIadj/limit")
        if (hia > lim + EPS).any():
            i, j = first(hia > lim + EPS)
            res.fail("hiadj_gt_limit", tag + "step %d: adjusted harvest index %.9g > HI0(1+dHI0/100) = %.6g" % (i, hia[j], lim))
        # ---- biomass / degree days ---------------------------------------------------------------
        for name in ("biomass", "biomass_ns", "gdd_cum"):
            col = g[:, G[name]]
            if (np.diff(col) < -1e-9 * np.maximum(1.0, np.abs(col[1:]))).any():
                j = int(np.argmax(np.diff(col) < -1e-9 * np.maximum(1.0, np.abs(col[1:])))) + 1
                res.fail(name + "_decreases", tag + "step %d: %s %.9g -> %.9g" % (sel[j], name, col[j - 1], col[j]))
        gdd, gcum = g[:, G["gdd"]], g[:, G["gdd_cum"]]
        span = float(c.Tupp) - float(c.Tbase)
        if ((gdd < -EPS) | (gdd > span + EPS)).any():
            i, j = first((gdd < -EPS) | (gdd > span + EPS))
            res.fail("gdd_range", tag + "step %d: degree days %.9g outside [0, Tupp-Tbase = %.4g]" % (i, gdd[j], span))
        ref = np.cumsum(gdd)
        if (np.abs(ref - gcum) > 1e-9 * np.maximum(1.0, ref)).any():
            i, j = first(np.abs(ref - gcum) > 1e-9 * np.maximum(1.0, ref))
            res.fail("gdd_cum_sum", tag + "step %d: cumulative degree days %.9g != running sum %.9g" % (i, gcum[j], ref[j]))
        if list(g[:, G["dap"]].astype(int)) != list(range(1, len(sel) + 1)):
            res.fail("dap_sequence", tag + "days after planting are not 1..n")
        # ---- labels ------------------------------------------------------------------------------
        tr_, trp = f[:, F["Tr"]], f[:, F["TrPot"]]
        if ((trp > 1e-6) & (tr_ < 0.99 * trp)).any():
            stress = True
            L.add("transpiration_stress")
        if (cc < ccns - 1e-6).any():
            stress = True
            L.add("canopy_below_no_stress")
        if (hia > hi + 1e-9).any():
            L.add("hi_adjusted_up")
        if (hia < hi - 1e-9).any():
            L.add("hi_adjusted_down")
        if (np.diff(cc) < -1e-9).any():
            L.add("canopy_decline")
        if len(sel) and cc.max() == 0:
            L.add("no_canopy_season")
        L.add("calendar" if crops[k].CalendarType == 1 else "thermal")
    if restr:
        L.add("restrictive_layer")
    if bound_active:
        L.add("table_bound_active")
    if wt:
        L.add("water_table")
    if off.any():
        L.add("off_season_rows")
    res.nontrivial = bool(stress or bound_active or restr)
    return res


def fixed_cases(tier):
    return []


simplifications = cfg_simplifications

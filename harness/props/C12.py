"""C12 -- configured parameters and weather stay read-only while stepping."""
import hashlib

import numpy as np
import pandas as pd

from .. import gen
from ..engine import Result
from ..observe import innermost_repo_frame
from .common import base_sample, cfg_simplifications, exception_of, observe, rows

ID = "C12"
RULE = ("Hypothesis-generated configurations with curve-number / germination / evaporation-layer depths on and off compartment "
        "boundaries and beyond the first compartments, arbitrary compartment thickness lists, profiles deepened for deep-rooted "
        "crops, all management options, groundwater series, thermal crops over >=2 seasons. A content hash of every parameter "
        "object (profile arrays, soil scalars, irrigation / field management structs, groundwater series, weather matrix and the "
        "user's weather table, planting / harvest dates, each season's crop, the user's own input objects) is taken before the "
        "first step and after every step; one evaluation per step. Non-trivial configuration: a surface-layer depth strictly "
        "inside a compartment, or a deepened profile, or >=2 seasons of a thermal crop; distinct = configuration hash.")
ASSUMPTIONS = [
    "a season's crop object and the CO2 object's current concentration may change only at the step whose clock switches to that season (thermal-calendar conversion, CO2 adjustment) -- exactly the exception the property states",
    "an exception 'assignment destination is read-only' raised from aquacrop code is an attempted write into a configured array and is reported as a violation",
    "objects not reachable from the model's parameter struct, clock, weather matrix or the user's input objects are not hashed; the filler crop used before the first season is not a configured parameter",
]
BUDGET = {"quick": 300, "thorough": 3500}
DEEP = ["Maize", "MaizeGDD", "Cotton", "CottonGDD", "Sunflower", "SunflowerGDD", "Soybean", "SoybeanGDD", "AlfalfaGDD", "Sorghum", "SorghumGDD"]
PROFILE = gen.profile(crops=DEEP * 2 + list(gen.CROPS), seasons=(1, 3), max_days=900, p_dz=0.5, p_soil_args=0.9, p_custom_soil=0.4, pen=True,
                      p_gw=0.35, p_fm=0.5, p_ffm=0.3, p_co2=0.3, storms=(0, 4), rain=(("dry", 3), ("mid", 2), ("wet", 2)), switches=True,
                      p_override=0.5, dry_spells=(0, 2), temp_events=(0, 2))


def strategy(tier):
    return gen.configs(PROFILE)


def _h(x):
    h = hashlib.sha1()
    if isinstance(x, np.ndarray):
        if x.dtype == object:
            h.update(repr(x.tolist()).encode())
        else:
            h.update(str(x.dtype).encode() + str(x.shape).encode() + np.ascontiguousarray(x).tobytes())
    elif isinstance(x, pd.DataFrame):
        h.update(repr(x.shape).encode() + repr(list(x.columns)).encode())
        for c in x.columns:
            a = x[c].to_numpy()
            h.update(str(a.dtype).encode())
            h.update(repr(a.tolist()).encode() if a.dtype == object else np.ascontiguousarray(a).tobytes())
        idx = x.index
        h.update(repr((idx.start, idx.stop, idx.step)).encode() if isinstance(idx, pd.RangeIndex) else _h(idx.to_numpy()).encode())
    elif isinstance(x, (pd.Series, pd.Index)):
        a = x.to_numpy()
        h.update(repr(a.tolist()).encode() if a.dtype == object else np.ascontiguousarray(a).tobytes())
    else:
        h.update(repr(x).encode())
    return h.hexdigest()[:12]


_WCACHE = {}


def weather_matrix_hash(w):
    """Hash of the model's (object-dtype) weather matrix; the float conversion is cached per array
    object and re-validated with a cheap element-wise comparison against the cached copy."""
    key = id(w)
    ent = _WCACHE.get(key)
    if ent is None or ent[0] is not w or ent[1].shape != w.shape or not np.array_equal(ent[1], w):
        _WCACHE.clear()
        copy_ = w.copy()
        hv = _h(np.asarray(w[:, :4], dtype=float)) + _h(w[:, 4].astype("datetime64[ns]").astype("int64"))
        _WCACHE[key] = (w, copy_, hv)
        return hv
    return ent[2]


def obj_hash(o, skip=()):
    parts = []
    for k in sorted(vars(o)):
        if k in skip:
            continue
        v = getattr(o, k)
        if isinstance(v, (np.ndarray, pd.DataFrame, pd.Series, pd.Index, int, float, str, bool, type(None), list, tuple, np.generic)):
            parts.append(k + "=" + _h(v))
    return _h("|".join(parts))


def snapshot(m):
    ps, ck = m._param_struct, m._clock_struct
    s = {}
    prof = ps.Soil.Profile
    for k in sorted(vars(prof)):
        s["profile." + k] = _h(getattr(prof, k))
    s["soil.scalars"] = obj_hash(ps.Soil, skip=("profile", "Profile", "Hydrology"))
    s["soil.profile_table"] = _h(ps.Soil.profile)
    s["irrigation"] = obj_hash(ps.IrrMngt)
    s["fallow_irrigation"] = obj_hash(ps.FallowIrrMngt)
    s["field_mngt"] = obj_hash(ps.FieldMngt)
    s["fallow_field_mngt"] = obj_hash(ps.FallowFieldMngt)
    s["groundwater.series"] = _h(np.asarray(ps.z_gw, dtype=float)) + _h(int(ps.water_table))
    w = m._weather
    s["weather.matrix"] = weather_matrix_hash(w)
    s["weather.user_table"] = _h(m.weather_df)
    s["clock.dates"] = _h(pd.DatetimeIndex(ck.planting_dates).asi8) + _h(pd.DatetimeIndex(ck.harvest_dates).asi8) + _h(pd.DatetimeIndex(ck.time_span).asi8)
    for k, c in enumerate(ps.Seasonal_Crop_List):
        s["season_crop.%d" % k] = obj_hash(c)
    s["co2.concentration"] = _h(float(ps.CO2.current_concentration))
    s["co2.other"] = obj_hash(ps.CO2, skip=("current_concentration",))
    # the user's own input objects
    s["user.soil"] = obj_hash(m.soil, skip=("profile", "Profile", "Hydrology")) + _h(m.soil.profile)
    s["user.irrigation"] = obj_hash(m.irrigation_management)
    s["user.field_mngt"] = obj_hash(m.field_management) + obj_hash(m.fallow_field_management)
    s["user.groundwater"] = obj_hash(m.groundwater)
    s["user.iwc"] = obj_hash(m.initial_water_content)
    return s


def evaluate(cfg):
    state = {"base": None, "bad": None, "n": 0, "season_before": None}

    def hook(tr, m, phase):
        if state["bad"] is not None:
            return
        if phase == "pre":
            if state["base"] is None:
                state["base"] = snapshot(m)
            state["season_before"] = int(m._clock_struct.season_counter)
            return
        cur = snapshot(m)
        state["n"] += 1
        base = state["base"]
        k_after = int(m._clock_struct.season_counter)
        switched = k_after != state["season_before"]
        for key in cur:
            if cur[key] != base.get(key):
                allowed = switched and key in ("season_crop.%d" % k_after, "co2.concentration")
                if allowed:
                    base[key] = cur[key]      # may change exactly once: the new value is the baseline from now on
                else:
                    state["bad"] = (key, len(tr.tsc) - 1)
                    return
        if set(cur) != set(base):
            state["bad"] = ("set of parameter objects", len(tr.tsc) - 1)

    tr, res = observe(cfg, step_hook=hook)
    res.sample = base_sample(cfg, tr)
    exc = exception_of(tr)
    if exc is not None and "read-only" in str(exc):
        fn, line, func = innermost_repo_frame(exc)
        res.fail("write_attempt:" + func, "step %d: %s attempted to write into a configured (read-only) array: %s at %s:%d" % (
            max(0, tr.n - 1), func, str(exc)[:80], fn, line))
        res.outcome = "ok"
    if tr.n == 0 or state["base"] is None:
        return res
    res.evals = max(1, state["n"])
    if state["bad"] is not None:
        key, i = state["bad"]
        res.fail("modified:" + key.split(".")[0] + "." + key.split(".")[1].rstrip("0123456789") if "." in key else "modified:" + key,
                 "step %d (%s): parameter object '%s' changed during time stepping" % (i, tr.date[i].date(), key))
    # ---- classification ----------------------------------------------------------------------------
    L = res.labels
    soil = tr.model._param_struct.Soil
    dzsum = tr.profile["dzsum"]
    inside = []
    for name in ("z_cn", "z_germ", "evap_z_min", "evap_z_max"):
        z = float(getattr(soil, name))
        if z < dzsum[-1] and np.min(np.abs(dzsum - z)) > 1e-9:
            inside.append(name)
            L.add(name + "_inside_compartment")
    base_dz = cfg["soil"].get("args", {}).get("dz")
    n0 = sum(base_dz) if base_dz else (1.2 if cfg["soil"]["type"] != "ac_TunisLocal" else 1.55)
    deepened = float(dzsum[-1]) > n0 + 1e-9
    if deepened:
        L.add("profile_deepened")
    crops = tr.model._param_struct.Seasonal_Crop_List
    seasons = len(set(int(s) for s in tr.season_a if s >= 0))
    thermal2 = bool(crops and int(crops[0].CalendarType) == 2 and seasons >= 2)
    if thermal2:
        L.add("thermal_crop_>=2_seasons")
    if cfg.get("gw"):
        L.add("groundwater_" + cfg["gw"].get("method", "Constant"))
    res.nontrivial = bool(inside or deepened or thermal2)
    return res


def fixed_cases(tier):
    return []


simplifications = cfg_simplifications

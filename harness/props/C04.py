"""C04 -- fluxes are non-negative and actual never exceeds potential."""
import copy

import numpy as np

from .. import gen
from ..engine import Result, hyp_target
from .common import F, G, base_sample, cfg_simplifications, observe, rows

ID = "C04"
RULE = ("Hypothesis-generated configurations biased to crops with CCx > 0.96 (Cotton, DryBean, Soybean, SugarBeet, Sunflower and "
        "CCx overrides up to 0.99) under good water supply, bunds with ponding, mulches, partial wetting (WetSurf<100) and net "
        "irrigation, layered soils with a sharp conductivity contrast; plus 32 enumerated 'crust' fields (conductivity contrast x "
        "(partly) saturated start x storms on the first days); every simulated day is one evaluation of all sign / "
        "actual<=potential / off-season relations. Non-trivial configuration: >=1 day with canopy cover > 0.966, or ponding>0 with "
        "Es>0, or mulches with Es>0, or irrigation with WetSurf<100, or deep percolation through a soil of >= 2 layers; distinct = "
        "configuration hash.")
ASSUMPTIONS = [
    "a run whose initial profile lies above saturation or below air-dry in some compartment (possible when depth points of one layer are extended into a layer with other hydraulic properties) is outside the domain of valid configurations: counted under the label start_outside_airdry_saturation, not evaluated",
    "tolerance 1e-9 mm; net-irrigation requirement (strategy 4) may be as low as -0.01 mm x number of compartments (root-zone bookkeeping rounding stated in the property)",
    "'outside a growing season' = rows with days-after-planting 0",
]
BUDGET = {"quick": 420, "thorough": 5000}
DENSE = ["Cotton", "CottonGDD", "DryBean", "DryBeanGDD", "Soybean", "SoybeanGDD", "SugarBeet", "SugarBeetGDD", "Sunflower", "SunflowerGDD"]
ALL = list(gen.CROPS)
PROFILE = gen.profile(crops=DENSE * 3 + ALL, p_override=0.5, p_custom_soil=0.45, ksat_contrast=0.5, seasons=(1, 2), max_days=800, p_bunds=0.5, p_mulch=0.5, p_fm=0.7,
                      p_ffm=0.4, irr=((0, 1), (1, 3), (2, 2), (3, 1), (4, 3), (5, 3)), p_cap=0.1, p_eff=0.4,
                      rain=(("dry", 1), ("mid", 2), ("wet", 2)), iwc=(("FC", 4), ("WP", 1), ("SAT", 2), ("Pct", 1), ("Num", 1), ("Depth", 1)))
EPS = 1e-9
NONNEG = ["IrrDay", "Runoff", "DeepPerc", "CR", "GwIn", "EsPot", "Es", "TrPot", "Tr"]


def strategy(tier):
    return gen.configs(PROFILE)


def evaluate(cfg):
    tr, res = observe(cfg)
    res.sample = base_sample(cfg, tr)
    if tr.n == 0 or not tr.start_ok:
        return res
    idx, n = rows(tr)
    if n == 0:
        return res
    m = tr.model
    irr = m._param_struct.IrrMngt
    method = int(irr.irrigation_method)
    fl = tr.flux[idx]
    gr = tr.growth[idx]
    ncomp = len(tr.profile["dz"])
    res.evals = int(n)
    for name in NONNEG:
        col = fl[:, F[name]]
        lo = -0.01 * ncomp if (name == "IrrDay" and method == 4) else -EPS
        if not np.isfinite(col).all():
            res.fail("nonfinite:" + name, "%s has a non-finite value" % name)
        elif (col < lo).any():
            i = int(np.argmin(col))
            res.fail("negative:" + name, "step %d (%s): %s = %.9g" % (i, tr.date[i].date(), name, col[i]))
    for act, pot in (("Es", "EsPot"), ("Tr", "TrPot")):
        d = fl[:, F[act]] - fl[:, F[pot]]
        if (d > EPS).any():
            i = int(np.argmax(d))
            res.fail("%s>%s" % (act, pot), "step %d (%s): %s %.9g > %s %.9g (canopy cover %.4f, ponding %.4g)" % (
                i, tr.date[i].date(), act, fl[i, F[act]], pot, fl[i, F[pot]], gr[i, G["canopy_cover"]], fl[i, F["surface_storage"]]))
        hyp_target(float(np.max(d)), act + "-" + pot)
    off = fl[:, F["dap"]] == 0
    for name in ("Tr", "TrPot", "IrrDay"):
        col = fl[off, F[name]]
        if (col != 0).any():
            j = int(np.flatnonzero(off)[np.argmax(col != 0)])
            res.fail("offseason:" + name, "step %d (%s) outside a growing season: %s = %.9g" % (j, tr.date[j].date(), name, fl[j, F[name]]))
    L = res.labels
    L.add("irr_m%d" % method)
    cc = gr[:, G["canopy_cover"]]
    dense = bool((cc > 0.966).any())
    es = fl[:, F["Es"]]
    pond_es = bool(((tr.ss_before_a[:n] > 0) & (es > 0)).any())
    mulch = bool((cfg.get("fm") or {}).get("mulches")) and bool((es[~off] > 0).any())
    wet = method in (1, 2, 3, 5) and float(irr.WetSurf) < 100 and bool((fl[:, F["IrrDay"]] > 0).any())
    if dense:
        L.add("canopy>0.966")
    if pond_es:
        L.add("ponding_with_Es")
    if mulch:
        L.add("mulches_with_Es")
    if wet:
        L.add("partial_wetting")
    if off.any():
        L.add("off_season_days")
    if method == 4 and (fl[:, F["IrrDay"]] > 0).any():
        L.add("net_irrigation")
    layered_perc = bool(cfg["soil"]["type"] == "custom" and len(cfg["soil"].get("layers", [])) >= 2 and (fl[:, F["DeepPerc"]] > 0).any())
    if layered_perc:
        L.add("deep_percolation_through_layered_soil")
    res.nontrivial = bool(dense or pond_es or mulch or wet or layered_perc)
    return res


def fixed_cases(tier):
    """Layered fields with a sharp conductivity contrast, (partly) saturated starts and storms on the first days:
    the constellation in which drainage and infiltration limits of different layers meet."""
    out = []
    W = dict(kind="synth", first="2001-04-25", days=260, tmean=20.0, amp=5.0, phase=0, dtr=12.0, et0=4.5, rain_p=0.1, rain_mm=8.0, noise=3,
             events=[dict(type="storm", day=6, mm=60.0), dict(type="storm", day=7, mm=50.0), dict(type="storm", day=8, mm=40.0),
                     dict(type="storm", day=40, mm=120.0)])
    for top, sub in ((15.0, 500.0), (2.0, 2200.0), (500.0, 5.0), (1200.0, 15.0)):
        for vals in (["SAT", "SAT", "WP"], ["SAT", "SAT", "SAT"], ["FC", "SAT", "FC"], ["WP", "SAT", "SAT"]):
            for crop, irr in (("Maize", dict(method=0)), ("Wheat", dict(method=4, NetIrrSMT=70.0))):
                layers = [dict(kind="hyd", wp=0.32, fc=0.50, sat=0.54, ksat=top, pen=100, thickness=0.1),
                          dict(kind="hyd", wp=0.15, fc=0.31, sat=0.46, ksat=sub, pen=100, thickness=0.5),
                          dict(kind="hyd", wp=0.15, fc=0.31, sat=0.46, ksat=sub, pen=100, thickness=4.6)]
                cfg = dict(start="2001/05/01", end="2001/12/20", off_season=True, crop=dict(name=crop, planting="05/01", harvest=None, overrides={}),
                           soil=dict(type="custom", args={"cn": 75.0}, layers=layers),
                           iwc=dict(wc_type="Prop", method="Layer", depth_layer=[1, 2, 3], value=vals), irr=irr, fm=None, ffm=None, gw=None, co2=None,
                           weather=copy.deepcopy(W))
                out.append(("crust-%g-%g-%s-%s" % (top, sub, "".join(v[0] for v in vals), crop), cfg))
    return out


simplifications = cfg_simplifications

"""C19 -- shallow groundwater behaves consistently."""
import copy

import numpy as np
from hypothesis import strategies as st

from .. import gen
from ..config import cfg_hash, describe
from ..engine import Result
from ..observe import compare_outputs
from ..refmodel import ref_gw_series
from .common import F, STOR_TH0, base_sample, cfg_simplifications, observe, rows
from .meta import note_base_failure, run_or_classify

ID = "C19"
RULE = ("Hypothesis-generated cases. (daily) all built-in and layered custom soils x constant depths 0.1-60 m and 'Constant' / "
        "'Variable' series of 2-6 observations rising and falling through the profile x crops with shallow and deep roots x all "
        "strategies (30 % of the cases have no table): wrappers around the groundwater check and capillary rise record the adjusted "
        "field capacity and the water content before/after capillary rise; one evaluation per simulated day. (far) a constant table "
        "40-200 m below the profile vs. no table: all tables except the z_gw column bitwise equal; one evaluation per pair. "
        "Non-trivial case: the table lies inside the profile on some day or capillary rise > 0 on some day (daily), every far pair; "
        "distinct = case hash.")
ASSUMPTIONS = [
    "compartment centres are the TRUE mid-depths (running sum of thicknesses); known finding F18a (stale mid-depths on deepened profiles): the two centre-dependent relations are skipped (and counted) on deepened profiles in the campaign and evaluated on a fixed regression case, which prints KNOWN-FINDING",
    "'far below' for the adjusted field capacity = more than 2 m (the largest capillary zone of the documented adjustment) between a compartment's centre and the table",
    "capillary rise may exceed the adjusted field capacity by its documented 0.0001 m3/m3 rounding (5e-5 tolerance)",
    "(far) the initial-water-content specification (Prop, last value FC) is documented to restart from the rounded adjusted field capacity and is not compared bitwise",
    "sound groundwater input: observation dates inside the window, the first one on the start date (the only shape the repository's examples use)",
]
BUDGET = {"quick": 380, "thorough": 4500}
PROFILE = gen.profile(p_gw=0.72, gw_shallow=True, p_custom_soil=0.45, seasons=(1, 2), max_days=750, p_dz=0.3,
                      iwc=(("FC", 3), ("WP", 2), ("SAT", 1), ("Pct", 2), ("Num", 1), ("Depth", 2)))
PROFILE_FAR = gen.profile(p_gw=0.0, p_custom_soil=0.3, seasons=(1, 2), max_days=600,
                          iwc=(("WP", 2), ("SAT", 2), ("Pct", 3), ("Num", 1), ("Depth", 2)))


@st.composite
def cases(draw):
    if draw(st.integers(0, 9)) < 8:
        return dict(kind="daily", cfg=draw(gen.configs(PROFILE)))
    return dict(kind="far", cfg=draw(gen.configs(PROFILE_FAR)), depth=float(draw(st.integers(45, 200))))


def strategy(tier):
    return cases()


def xmax(fc):
    if fc <= 0.1:
        return 1.0
    if fc >= 0.3:
        return 2.0
    return 10.0 ** (2.0 + 0.3 * (fc - 0.1) / 0.2) / 100.0


def eval_daily(cfg, check_f18a=False):
    tr, res = observe(cfg, capture=("gw", "cr"))
    res.sample = base_sample(cfg, tr, {"kind": "daily", "gw": cfg.get("gw")})
    if tr.n == 0:
        return res
    idx, n = rows(tr)
    n = min(n, len(tr.cr_calls), len(tr.gw_calls))
    if n == 0:
        return res
    p = tr.profile
    dz = p["dz"]
    cs = np.cumsum(dz)
    mid = cs - dz / 2
    base = cfg["soil"].get("args", {}).get("dz")
    n0 = sum(base) if base else (1.2 if cfg["soil"]["type"] != "ac_TunisLocal" else 1.55)
    deepened = bool(cs[-1] > n0 + 1e-9)
    sfx = "|deepened_profile" if deepened else ""
    fl = tr.flux[idx][:n]
    th_end = tr.storage[idx][:n, STOR_TH0:]
    L = res.labels
    res.evals = int(n)
    gw = cfg.get("gw")
    if gw is None:
        if (fl[:, F["CR"]] != 0).any() or (fl[:, F["GwIn"]] != 0).any():
            i = int(np.argmax((fl[:, F["CR"]] != 0) | (fl[:, F["GwIn"]] != 0)))
            res.fail("flux_without_table", "step %d: capillary rise %.6g / groundwater inflow %.6g without a water table" % (i, fl[i, F["CR"]], fl[i, F["GwIn"]]))
        L.add("no_table")
        res.nontrivial = False
        return res
    zref = ref_gw_series(gw, tr.date[:n])
    zcol = fl[:, F["z_gw"]]
    if np.abs(zcol - zref).max() > 1e-9:
        i = int(np.argmax(np.abs(zcol - zref)))
        res.fail("table_depth_series:" + gw.get("method", "Constant"), "step %d (%s): water-table depth %.9g, observations (%s) give %.9g" % (
            i, tr.date[i].date(), zcol[i], gw, zref[i]))
    inside_any = False
    for i in range(n):
        z = float(zref[i])
        g = tr.gw_calls[i]
        adj = g["th_fc_adj"]
        if (adj < p["th_fc"] - 1e-12).any() or (adj > np.maximum(p["th_s"], p["th_fc"]) + 1e-12).any():
            c = int(np.argmax((adj < p["th_fc"] - 1e-12) | (adj > np.maximum(p["th_s"], p["th_fc"]) + 1e-12)))
            res.fail("thfc_adj_range", "step %d compartment %d: adjusted field capacity %.9g outside [field capacity %.4g, saturation %.4g] (table %.3f m)" % (
                i, c, adj[c], p["th_fc"][c], p["th_s"][c], z))
            break
        far = (z - mid) > 2.0 + 1e-9
        skip_mid = deepened and not check_f18a   # known finding F18a: excluded on deepened profiles, counted
        if skip_mid:
            if i == 0:
                res.exclude("F18a")
        elif (np.abs(adj - p["th_fc"])[far] > 1e-12).any():
            c = int(np.flatnonzero(far)[np.argmax(np.abs(adj - p["th_fc"])[far])])
            res.fail("thfc_adj_not_fc_far_above_table" + sfx, "step %d compartment %d (centre %.3f m, table %.3f m): adjusted field capacity %.9g != field capacity %.4g" % (
                i, c, mid[c], z, adj[c], p["th_fc"][c]))
            break
        below = mid > z + 1e-6      # strictly below (a centre within 1e-6 m of the table is on the boundary: either reading is acceptable)
        if below.any():
            inside_any = True
            d = np.abs(th_end[i] - p["th_s"])[below]
            if not skip_mid and (d > 1e-9).any():
                c = int(np.flatnonzero(below)[np.argmax(d)])
                res.fail("below_table_not_saturated" + sfx, "step %d (%s) compartment %d: centre %.3f m lies below the table at %.3f m but th = %.6g (saturation %.4g) at the end of the day" % (
                    i, tr.date[i].date(), c, mid[c], z, th_end[i, c], p["th_s"][c]))
                break
        cr = tr.cr_calls[i]
        lim = np.maximum(cr["th_before"], cr["thfc"] + 5e-5)
        if (cr["th_after"] > lim + 1e-12).any():
            c = int(np.argmax(cr["th_after"] - lim))
            res.fail("capillary_rise_above_adjusted_fc", "step %d compartment %d: capillary rise lifts th %.9g -> %.9g above the adjusted field capacity %.9g" % (
                i, c, cr["th_before"][c], cr["th_after"][c], cr["thfc"][c]))
            break
        if (cr["th_after"] < cr["th_before"] - 1e-12).any():
            res.fail("capillary_rise_removes_water", "step %d: capillary rise lowers a water content" % i)
            break
    cr_any = bool((fl[:, F["CR"]] > 0).any())
    if inside_any:
        L.add("table_inside_profile")
    if cr_any:
        L.add("capillary_rise>0")
    if (fl[:, F["GwIn"]] > 0).any():
        L.add("groundwater_inflow>0")
    if deepened:
        L.add("deepened_profile")
    L.add("gw_" + ("single" if len(gw["values"]) == 1 else gw.get("method", "Constant")))
    if len(gw["values"]) > 1 and (np.diff(zref) < 0).any():
        L.add("rising_table")
    res.nontrivial = bool(inside_any or cr_any)
    return res


def eval_far(case):
    res = Result()
    cfg = copy.deepcopy(case["cfg"])
    cfg["gw"] = None
    iwc = cfg.get("iwc")
    if iwc is None or (iwc["wc_type"] == "Prop" and iwc["value"][-1] == "FC"):
        cfg["iwc"] = dict(wc_type="Pct", method="Layer", depth_layer=list(range(1, len(iwc["depth_layer"]) + 1)) if iwc and iwc["method"] == "Layer" else [1],
                          value=[50.0] * (len(iwc["depth_layer"]) if iwc and iwc["method"] == "Layer" else 1))
        from ..config import n_layers

        nl = n_layers(cfg["soil"])
        cfg["iwc"] = dict(wc_type="Pct", method="Layer", depth_layer=list(range(1, nl + 1)), value=[50.0] * nl)
    res.sample = {"kind": "far", "cfg": describe(cfg), "depth": case["depth"], "hash": cfg_hash(case)}
    res.labels.add("far_pair")
    base, info = run_or_classify(cfg)
    if base is None:
        return note_base_failure(res, info)
    zsoil = float(info._param_struct.Soil.Profile.dzsum[-1])
    c2 = copy.deepcopy(cfg)
    c2["gw"] = dict(method="Constant", dates=[cfg["start"]], values=[zsoil + case["depth"]])
    out, info2 = run_or_classify(c2)
    if out is None:
        res.fail("far_table_raises", "a water table %.0f m below the profile makes the run raise / be rejected (%s)" % (case["depth"], info2))
        return res
    a = list(out)
    b = list(base)
    a[0] = np.delete(a[0], F["z_gw"], axis=1)
    b[0] = np.delete(b[0], F["z_gw"], axis=1)
    d = compare_outputs(tuple(a), tuple(b))
    if d:
        res.fail("far_table_differs", "a water table %.0f m below the profile changes the results w.r.t. no table: %s" % (case["depth"], d))
    res.nontrivial = True
    return res


def evaluate(case):
    if case["kind"] == "far":
        return eval_far(case)
    return eval_daily(case["cfg"], check_f18a=bool(case.get("check_f18a")))


F18A_CASE = dict(kind="daily", check_f18a=True, cfg=dict(
    start="2001/05/01", end="2001/10/15", off_season=False, crop=dict(name="Maize", planting="05/01", harvest=None, overrides={}),
    soil=dict(type="SandyLoam", args={}), iwc=dict(wc_type="Prop", method="Layer", depth_layer=[1], value=["FC"]), irr=dict(method=0),
    fm=None, ffm=None, gw=dict(method="Constant", dates=["2001/05/01"], values=[1.4]), co2=None,
    weather=dict(kind="synth", first="2001-04-25", days=200, tmean=22.0, amp=4.0, phase=0, dtr=10.0, et0=5.0, rain_p=0.25, rain_mm=8.0, noise=5, events=[])))


def fixed_cases(tier):
    # regression case of known finding F18a (water table inside a profile deepened for Maize)
    return [("known-F18a", F18A_CASE)]


def simplifications(case):
    for c in cfg_simplifications(case["cfg"]):
        if case["kind"] == "daily" and case["cfg"].get("gw") is not None and c.get("gw") is None:
            continue
        c2 = dict(case)
        c2["cfg"] = c
        yield c2

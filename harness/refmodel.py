"""Reference models written from the property statements / FAO documentation, independent of the
library code: growing degree days, irrigation contracts, groundwater series, initial water content."""
import numpy as np


# ------------------------------------------------------------------------------------------------
# growing degree days (FAO AquaCrop reference manual, three methods)
# ------------------------------------------------------------------------------------------------
def ref_gdd(method, tupp, tbase, tmax, tmin):
    if method == 1:
        tmean = min(max((tmax + tmin) / 2.0, tbase), tupp)
    elif method == 2:
        tmean = (min(max(tmax, tbase), tupp) + min(max(tmin, tbase), tupp)) / 2.0
    else:
        tmean = max((min(max(tmax, tbase), tupp) + min(tmin, tupp)) / 2.0, tbase)
    return tmean - tbase


# ------------------------------------------------------------------------------------------------
# groundwater series
# ------------------------------------------------------------------------------------------------
def ref_gw_series(gw, dates):
    """Daily table depth for the simulated dates (list of Timestamps) from the observations:
    one observation or method 'Constant' -> step function (first value before the first date),
    'Variable' -> linear interpolation over days, constant outside the observations."""
    import pandas as pd

    od = [pd.Timestamp(d) for d in gw["dates"]]
    ov = [float(v) for v in gw["values"]]
    order = np.argsort([d.value for d in od], kind="stable")
    od = [od[i] for i in order]
    ov = [ov[i] for i in order]
    out = np.empty(len(dates))
    if len(od) == 1 or gw.get("method", "Constant") == "Constant":
        for i, d in enumerate(dates):
            v = ov[0]
            for dd, vv in zip(od, ov):
                if d >= dd:
                    v = vv
            out[i] = v
        return out
    x = np.array([(d - od[0]).days for d in od], dtype=float)
    q = np.array([(d - od[0]).days for d in dates], dtype=float)
    return np.interp(q, x, np.array(ov))


# ------------------------------------------------------------------------------------------------
# irrigation contracts (C13)
# ------------------------------------------------------------------------------------------------
def ref_irrigation(method, in_season, D, T, stage, dap, eff, max_irr, smt, interval, sched_depth, depth, max_season, applied_so_far):
    """Depth the strategy must apply today (before/after the seasonal cap)."""
    if not in_season or method in (0, 4):
        return 0.0
    refill = max(0.0, D) * (2.0 - eff / 100.0)   # (100 - eff + 100)/100: refills depletion adjusted for efficiency
    if method == 1:
        want = min(max_irr, refill) if (T > 0 and D / T > 1.0 - smt[stage - 1] / 100.0) else 0.0
    elif method == 2:
        want = min(max_irr, refill) if (dap - 1) % interval == 0 else 0.0
    elif method == 3:
        want = min(max_irr, sched_depth)
    else:
        want = min(max_irr, depth)
    want = max(0.0, want)
    if applied_so_far + want > max_season:
        want = max(0.0, max_season - applied_so_far)
    return want


# ------------------------------------------------------------------------------------------------
# root-zone storage (C13): plain sums over the compartments covered by the root zone
# ------------------------------------------------------------------------------------------------
def ref_root_zone(prof, zroot, zmin, th):
    """(depletion below field capacity [mm], total available water [mm], water above field capacity [mm])
    of the root zone max(zroot, zmin); prof is a dict of profile arrays."""
    depth = round(max(float(zroot), float(zmin)), 2)
    dzsum, dz = prof["dzsum"], prof["dz"]
    w_act = w_fc = w_wp = 0.0
    for i in range(len(dz)):
        top = dzsum[i] - dz[i]
        if top >= depth - 1e-12:
            break
        frac = 1.0 if dzsum[i] <= depth else 1.0 - (dzsum[i] - depth) / dz[i]
        w_act += frac * 1000.0 * th[i] * dz[i]
        w_fc += frac * 1000.0 * prof["th_fc"][i] * dz[i]
        w_wp += frac * 1000.0 * prof["th_wp"][i] * dz[i]
    taw = max(w_fc - w_wp, 0.0)
    dr = min(w_fc - max(w_act, 0.0), taw)
    above = max(0.0, w_act - w_fc)
    return dr, taw, above

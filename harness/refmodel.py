"""Reference models written from the property statements / FAO documentation, independent of the
library code: growing degree days, irrigation contracts, groundwater series, initial water content."""
import numpy as np


# ------------------------------------------------------------------------------------------------
# growing degree days (FAO AquaCrop reference manual, three methods)
# ------------------------------------------------------------------------------------------------
def ref_gdd(method, tupp, tbase, tmax, tmin):
    if method == 1:
        tmean = min(max((tmax + tmin) / 2.0, tbase), tupp)
    elif method == 2:
        tmean = (min(max(tmax, tbase), tupp) + min(max(tmin, tbase), tupp)) / 2.0
    else:
        tmean = max((min(max(tmax, tbase), tupp) + min(tmin, tupp)) / 2.0, tbase)
    return tmean - tbase


# ------------------------------------------------------------------------------------------------
# groundwater series
# ------------------------------------------------------------------------------------------------
def ref_gw_series(gw, dates):
    """Daily table depth for the simulated dates (list of Timestamps) from the observations:
    one observation or method 'Constant' -> step function (first value before the first date),
    'Variable' -> linear interpolation over days, constant outside the observations."""
    import pandas as pd

    od = [pd.Timestamp(d) for d in gw["dates"]]
    ov = [float(v) for v in gw["values"]]
    order = np.argsort([d.value for d in od], kind="stable")
    od = [od[i] for i in order]
    ov = [ov[i] for i in order]
    out = np.empty(len(dates))
    if len(od) == 1 or gw.get("method", "Constant") == "Constant":
        for i, d in enumerate(dates):
            v = ov[0]
            for dd, vv in zip(od, ov):
                if d >= dd:
                    v = vv
            out[i] = v
        return out
    x = np.array([(d - od[0]).days for d in od], dtype=float)
    q = np.array([(d - od[0]).days for d in dates], dtype=float)
    return np.interp(q, x, np.array(ov))


# ------------------------------------------------------------------------------------------------
# irrigation contracts (C13)
# ------------------------------------------------------------------------------------------------
def ref_irrigation(method, in_season, D, T, stage, dap, eff, max_irr, smt, interval, sched_depth, depth, max_season, applied_so_far):
    """Depth the strategy must apply today (before/after the seasonal cap)."""
    if not in_season or method in (0, 4):
        return 0.0
    refill = max(0.0, D) * (2.0 - eff / 100.0)   # (100 - eff + 100)/100: refills depletion adjusted for efficiency
    if method == 1:
        want = min(max_irr, refill) if (T > 0 and D / T > 1.0 - smt[stage - 1] / 100.0) else 0.0
    elif method == 2:
        want = min(max_irr, refill) if (dap - 1) % interval == 0 else 0.0
    elif method == 3:
        want = min(max_irr, sched_depth)
    else:
        want = min(max_irr, depth)
    want = max(0.0, want)
    if applied_so_far + want > max_season:
        want = max(0.0, max_season - applied_so_far)
    return want


# ------------------------------------------------------------------------------------------------
# root-zone storage (C13): plain sums over the compartments covered by the root zone
# ------------------------------------------------------------------------------------------------
def ref_root_zone(prof, zroot, zmin, th):
    """(depletion below field capacity [mm], total available water [mm], water above field capacity [mm])
    of the root zone max(zroot, zmin); prof is a dict of profile arrays."""
    depth = round(max(float(zroot), float(zmin)), 2)
    dzsum, dz = prof["dzsum"], prof["dz"]
    w_act = w_fc = w_wp = 0.0
    for i in range(len(dz)):
        top = dzsum[i] - dz[i]
        if top >= depth - 1e-12:
            break
        frac = 1.0 if dzsum[i] <= depth else 1.0 - (dzsum[i] - depth) / dz[i]
        w_act += frac * 1000.0 * th[i] * dz[i]
        w_fc += frac * 1000.0 * prof["th_fc"][i] * dz[i]
        w_wp += frac * 1000.0 * prof["th_wp"][i] * dz[i]
    taw = max(w_fc - w_wp, 0.0)
    dr = min(w_fc - max(w_act, 0.0), taw)
    above = max(0.0, w_act - w_fc)
    return dr, taw, above


# ------------------------------------------------------------------------------------------------
# Saxton & Rawls (2006) pedotransfer functions (Soil Sci. Soc. Am. J. 70:1569-1578, Table 1),
# written from the paper: S, C as fractions, OM in % weight; moistures in m3/m3, Ks in mm/h
# ------------------------------------------------------------------------------------------------
def ref_saxton_rawls(sand_pct, clay_pct, om_pct):
    S, C, OM = sand_pct / 100.0, clay_pct / 100.0, om_pct
    t1500t = -0.024 * S + 0.487 * C + 0.006 * OM + 0.005 * S * OM - 0.013 * C * OM + 0.068 * S * C + 0.031
    t1500 = t1500t + (0.14 * t1500t - 0.02)
    t33t = -0.251 * S + 0.195 * C + 0.011 * OM + 0.006 * S * OM - 0.027 * C * OM + 0.452 * S * C + 0.299
    t33 = t33t + (1.283 * t33t ** 2 - 0.374 * t33t - 0.015)
    ts33t = 0.278 * S + 0.034 * C + 0.022 * OM - 0.018 * S * OM - 0.027 * C * OM - 0.584 * S * C + 0.078
    ts33 = ts33t + (0.636 * ts33t - 0.107)
    ts = t33 + ts33 - 0.097 * S + 0.043
    lam = (np.log(t33) - np.log(t1500)) / (np.log(1500.0) - np.log(33.0))   # = 1/B
    ks_mm_h = 1930.0 * (ts - t33) ** (3.0 - lam)
    return dict(wp=t1500, fc=t33, sat=ts, ksat=ks_mm_h * 24.0)


# built-in soil types as documented (wilting point, field capacity, saturation, Ksat mm/day) per layer
BUILTIN_SOIL_TABLE = {
    "Clay": ([(None, 0.39, 0.54, 0.55, 35)], 77), "ClayLoam": ([(None, 0.23, 0.39, 0.50, 125)], 72),
    "Default": ([(None, 0.10, 0.30, 0.50, 500)], 61), "Loam": ([(None, 0.15, 0.31, 0.46, 500)], 61),
    "LoamySand": ([(None, 0.08, 0.16, 0.38, 2200)], 46), "Sand": ([(None, 0.06, 0.13, 0.36, 3000)], 46),
    "SandyClay": ([(None, 0.27, 0.39, 0.50, 35)], 77), "SandyClayLoam": ([(None, 0.20, 0.32, 0.47, 225)], 72),
    "SandyLoam": ([(None, 0.10, 0.22, 0.41, 1200)], 46), "Silt": ([(None, 0.09, 0.33, 0.43, 500)], 61),
    "SiltClayLoam": ([(None, 0.23, 0.44, 0.52, 150)], 72), "SiltLoam": ([(None, 0.13, 0.33, 0.46, 575)], 61),
    "SiltClay": ([(None, 0.32, 0.50, 0.54, 100)], 72),
    "Paddy": ([(0.5, 0.32, 0.50, 0.54, 15), (1.5, 0.39, 0.54, 0.55, 2)], 77),
    "ac_TunisLocal": ([(0.3, 0.24, 0.40, 0.50, 155), (1.7, 0.11, 0.33, 0.46, 500)], 72),
}

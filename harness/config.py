"""JSON configuration model  <->  aquacrop objects.

A *configuration* is a plain JSON-serialisable dict (see DESIGN.md section 3).  `build(cfg)` always
creates fresh aquacrop objects, so no state is shared between cases unless a property is about
sharing (C10, C11).
"""
import copy
import hashlib
import json

import numpy as np
import pandas as pd

from . import REPO  # noqa: F401  (sets sys.path)

from aquacrop import (  # noqa: E402
    AquaCropModel,
    CO2,
    Crop,
    FieldMngt,
    GroundWater,
    InitialWaterContent,
    IrrigationManagement,
    Soil,
)
from aquacrop.entities.crops.crop_params import crop_params  # noqa: E402

# the documented catalogue as it is at import time, before any Crop object has been built in this process
PRISTINE_CROP_PARAMS = copy.deepcopy(crop_params)

WEATHER_COLS = ["MinTemp", "MaxTemp", "Precipitation", "ReferenceET", "Date"]

BUILTIN_SOILS = [
    "Clay", "ClayLoam", "Default", "Loam", "LoamySand", "Sand", "SandyClay", "SandyClayLoam",
    "SandyLoam", "Silt", "SiltClayLoam", "SiltLoam", "SiltClay", "Paddy", "ac_TunisLocal",
]
SOIL_LAYERS = {s: 1 for s in BUILTIN_SOILS}
SOIL_LAYERS["Paddy"] = 2
SOIL_LAYERS["ac_TunisLocal"] = 2

CROPS = list(crop_params.keys())
CAL_CROPS = [c for c in CROPS if crop_params[c]["CalendarType"] == 1]
GDD_CROPS = [c for c in CROPS if crop_params[c]["CalendarType"] == 2]


def cfg_hash(cfg) -> str:
    return hashlib.sha1(json.dumps(cfg, sort_keys=True, default=str).encode()).hexdigest()[:16]


# ------------------------------------------------------------------------------------------------
# weather
# ------------------------------------------------------------------------------------------------
_FILE_CACHE = {}


def _file_weather(name):
    if name not in _FILE_CACHE:
        from aquacrop.utils import get_filepath, prepare_weather

        _FILE_CACHE[name] = prepare_weather(get_filepath(name))
    return _FILE_CACHE[name].copy()


def build_weather(w) -> pd.DataFrame:
    """Canonical weather table (columns MinTemp, MaxTemp, Precipitation, ReferenceET, Date)."""
    if w["kind"] == "file":
        df = _file_weather(w["name"])
        if "first" in w:
            df = df[(df.Date >= pd.Timestamp(w["first"]))]
        if "days" in w:
            df = df.iloc[: w["days"]]
        return df.reset_index(drop=True)[WEATHER_COLS]
    days = int(w["days"])
    dates = pd.date_range(w["first"], periods=days, freq="D")
    doy = dates.dayofyear.values.astype(float)
    rng = np.random.default_rng(int(w.get("noise", 0)))
    season = np.sin(2 * np.pi * (doy - 110.0 - float(w.get("phase", 0))) / 365.0)
    tm = float(w.get("tmean", 18.0)) + float(w.get("amp", 8.0)) * season
    dtr = float(w.get("dtr", 10.0))
    tmin = tm - dtr / 2 + rng.normal(0, 1.5, days)
    tmax = tm + dtr / 2 + rng.normal(0, 1.5, days)
    rain = np.where(
        rng.random(days) < float(w.get("rain_p", 0.3)),
        rng.exponential(float(w.get("rain_mm", 8.0)), days),
        0.0,
    )
    et0m = float(w.get("et0", 4.0))
    et0 = et0m * (1 + 0.4 * season) + rng.normal(0, 0.1 * et0m, days)
    for ev in w.get("events", []):
        i = int(ev["day"])
        if i >= days or i < 0:
            continue
        j = min(days, i + int(ev.get("len", 1)))
        t = ev["type"]
        if t == "storm":
            rain[i] = float(ev["mm"])
        elif t == "dry":
            rain[i:j] = 0.0
        elif t == "wet":
            rain[i:j] = float(ev["mm"])
        elif t == "temp":
            tmin[i:j] += float(ev["delta"])
            tmax[i:j] += float(ev["delta"])
        elif t == "et0":
            et0[i:j] = float(ev["value"])
    if w.get("lattice"):
        # whole-degree temperatures: daily degree days are multiples of 0.5, so cumulative sums land EXACTLY on the
        # (integer) thermal thresholds of the crop calendars now and then -- the boundary of every > / >= comparison
        tmin, tmax = np.round(tmin), np.round(tmax)
    tmax = np.maximum(tmax, tmin + 0.5)
    # prepare_weather clips ReferenceET below at 0.1 (documented precondition against /0)
    et0 = np.clip(et0, 0.1, None)
    return pd.DataFrame(
        {"MinTemp": tmin, "MaxTemp": tmax, "Precipitation": rain, "ReferenceET": et0, "Date": dates}
    )[WEATHER_COLS]


def apply_weather_xform(df: pd.DataFrame, xf) -> pd.DataFrame:
    """Equivalent re-presentations of a weather table (C15) -- xf is a list of operations."""
    df = df.copy()
    for op in xf or []:
        k = op["op"]
        if k == "perm":  # new column order of the five required columns
            df = df[[WEATHER_COLS[i] for i in op["order"]] + [c for c in df.columns if c not in WEATHER_COLS]]
        elif k == "extra":  # insert an unrelated column
            kind = op["kind"]
            n = len(df)
            if kind == "num":
                col = np.linspace(-5, 1e4, n)
            elif kind == "num_nan":       # sparse measurements: mostly missing
                col = np.where(np.arange(n) % 5 == 2, np.nan, np.linspace(0, 30, n))
            elif kind == "obj_none":      # quality flags, sometimes None
                col = np.array([None if i % 7 == 3 else "ok" for i in range(n)], dtype=object)
            elif kind == "int":
                col = np.arange(n) * 7 - 3
            elif kind == "str":
                col = np.array(["s%d" % (i % 11) for i in range(n)], dtype=object)
            else:  # 'date'
                col = pd.date_range("1950-01-01", periods=n, freq="D")
            pos = min(int(op["pos"]), len(df.columns))
            df.insert(pos, op["name"], col)
        elif k == "index":
            kind = op["kind"]
            n = len(df)
            if kind == "shift":
                df.index = np.arange(n) + int(op.get("by", 1000))
            elif kind == "date":
                df.index = pd.DatetimeIndex(df.Date.values)
            elif kind == "rev":
                df.index = np.arange(n)[::-1]
            elif kind == "str":
                df.index = ["r%05d" % ((i * 7919) % 100003) for i in range(n)]
            elif kind == "dup":      # repeating labels, as after pd.concat of yearly tables without ignore_index
                df.index = np.arange(n) % int(op.get("by", 365))
            elif kind == "const":    # every row carries the same label
                df.index = np.zeros(n, dtype=int)
        elif k == "pad":  # extra rows before / after with arbitrary values
            nb, na, val = int(op.get("before", 0)), int(op.get("after", 0)), float(op.get("value", 99.0))
            parts = []
            d0, d1 = df.Date.iloc[0], df.Date.iloc[-1]
            cols = list(df.columns)

            def block(dates):
                b = pd.DataFrame(index=range(len(dates)), columns=cols)
                for c in cols:
                    if c == "Date":
                        b[c] = dates
                    elif c == "MinTemp":
                        b[c] = -val
                    elif c in ("MaxTemp", "Precipitation", "ReferenceET"):
                        b[c] = val
                    else:
                        b[c] = df[c].iloc[0]
                return b.astype(df.dtypes.to_dict())

            if nb:
                parts.append(block(pd.date_range(d0 - pd.Timedelta(days=nb), periods=nb, freq="D")))
            parts.append(df)
            if na:
                parts.append(block(pd.date_range(d1 + pd.Timedelta(days=1), periods=na, freq="D")))
            df = pd.concat(parts, ignore_index=True)
        elif k == "trim":  # drop rows outside [first, last]
            df = df[(df.Date >= pd.Timestamp(op["first"])) & (df.Date <= pd.Timestamp(op["last"]))]
        elif k == "intcols":  # whole-number measurements stored in an integer column (e.g. rain in whole mm)
            for c in op["cols"]:
                v = np.rint(df[c].to_numpy(dtype=float))
                if c == "ReferenceET":
                    v = np.maximum(v, 1.0)     # ET0 >= 0.1 is the documented domain: a whole-number ET0 is at least 1
                df[c] = v.astype("int64")
        elif k == "float32":
            for c in ("MinTemp", "MaxTemp", "Precipitation", "ReferenceET"):
                df[c] = df[c].astype("float32").astype("float64")
        elif k == "perturb":  # C14: change values from a date on
            m = df.Date >= pd.Timestamp(op["from"])
            for c, (a, b) in op["cols"].items():
                vals = df.loc[m, c].values * float(a) + float(b)
                if c == "ReferenceET":
                    vals = np.clip(vals, 0.1, None)
                if c == "Precipitation":
                    vals = np.clip(vals, 0.0, None)
                df.loc[m, c] = vals
            df["MaxTemp"] = np.maximum(df["MaxTemp"].values, df["MinTemp"].values + 0.5)
        else:
            raise ValueError("unknown weather op %r" % (k,))
    return df


# ------------------------------------------------------------------------------------------------
# objects
# ------------------------------------------------------------------------------------------------
def build_soil(s):
    args = dict(s.get("args", {}))
    if "dz" in args:
        args["dz"] = list(args["dz"])
    soil = Soil(s["type"], **args)
    if s["type"] == "custom":
        for lay in s["layers"]:
            if lay["kind"] == "hyd":
                soil.add_layer(lay["thickness"], lay["wp"], lay["fc"], lay["sat"], lay["ksat"], lay["pen"])
            else:
                soil.add_layer_from_texture(lay["thickness"], lay["sand"], lay["clay"], lay["om"], lay["pen"])
    return soil


def n_layers(s) -> int:
    """Number of layers that actually receive at least one compartment (a layer that starts below
    the bottom of the compartment list does not exist in the built soil)."""
    from .refsoil import layer_of_compartments

    dz = s.get("args", {}).get("dz")
    if s["type"] == "custom":
        th = [l["thickness"] for l in s["layers"]]
        return int(max(layer_of_compartments(dz or [0.1] * 12, th)))
    if s["type"] == "Paddy" and dz is not None:
        return int(max(layer_of_compartments(dz, [0.5, 1.5])))
    return SOIL_LAYERS[s["type"]]


def build_crop(c):
    return Crop(c["name"], planting_date=c["planting"], harvest_date=c.get("harvest"), **c.get("overrides", {}))


def build_iwc(i):
    if i is None:
        return InitialWaterContent(value=["FC"])
    return InitialWaterContent(
        wc_type=i["wc_type"], method=i["method"], depth_layer=list(i["depth_layer"]), value=list(i["value"])
    )


def build_irr(r):
    if r is None:
        return None
    kw = {k: (list(v) if isinstance(v, list) else v) for k, v in r.items() if k not in ("method", "schedule", "schedule_param")}
    if r.get("schedule_param") is not None and r["method"] != 3:
        sp = r["schedule_param"]
        kw["Schedule"] = pd.DataFrame({"Date": pd.to_datetime([d for d, _ in sp]), "Depth": np.array([float(x) for _, x in sp], dtype=float)})
    if r["method"] == 3:
        sch = r.get("schedule", [])
        kw["Schedule"] = pd.DataFrame(
            {"Date": pd.to_datetime([d for d, _ in sch]), "Depth": np.array([float(x) for _, x in sch], dtype=float)}
        )
        if len(sch) == 0:
            kw["Schedule"] = pd.DataFrame({"Date": pd.to_datetime([]), "Depth": np.array([], dtype=float)})
    return IrrigationManagement(irrigation_method=r["method"], **kw)


def build_fm(f):
    if f is None:
        return None
    return FieldMngt(**f)


def build_gw(g):
    if g is None:
        return None
    return GroundWater(water_table="Y", method=g.get("method", "Constant"), dates=gw_dates(g), values=list(g["values"]))


def gw_dates(g):
    """the observation dates (stored as zero-padded YYYY/MM/DD in the case) in the notation the case asks for: the same
    instants written differently -- their lexical order then differs from their chronological order"""
    fmt = g.get("datefmt", "padded")
    out = []
    for d in g["dates"]:
        t = pd.Timestamp(d)
        if fmt == "unpadded":
            out.append("%d/%d/%d" % (t.year, t.month, t.day))
        elif fmt == "iso":
            out.append(t.strftime("%Y-%m-%d"))
        elif fmt == "mdy":
            out.append(t.strftime("%m/%d/%Y"))
        elif fmt == "ts":
            out.append(t)
        else:
            out.append(str(d))
    return out


def build_co2(c):
    if c is None:
        return None
    extra = {"ref_concentration": float(c["ref"])} if "ref" in c else {}
    if "constant" in c:
        return CO2(constant_conc=True, current_concentration=float(c["constant"]), **extra)
    if "constant_default" in c:
        return CO2(constant_conc=True, **extra)
    tab = c["table"]
    return CO2(co2_data=pd.DataFrame({"year": [int(y) for y, _ in tab], "ppm": [float(p) for _, p in tab]}), **extra)


def build(cfg, weather_df=None):
    """kwargs for AquaCropModel from a configuration (fresh objects every call)."""
    if weather_df is None:
        weather_df = apply_weather_xform(build_weather(cfg["weather"]), cfg.get("weather_xform"))
    kw = dict(
        sim_start_time=cfg["start"],
        sim_end_time=cfg["end"],
        weather_df=weather_df,
        soil=build_soil(cfg["soil"]),
        crop=build_crop(cfg["crop"]),
        initial_water_content=build_iwc(cfg.get("iwc")),
        off_season=bool(cfg.get("off_season", False)),
    )
    for key, fn, arg in (
        ("irr", build_irr, "irrigation_management"),
        ("fm", build_fm, "field_management"),
        ("ffm", build_fm, "fallow_field_management"),
        ("gw", build_gw, "groundwater"),
        ("co2", build_co2, "co2_concentration"),
    ):
        if cfg.get(key) is not None:
            kw[arg] = fn(cfg[key])
    return kw


def make_model(cfg, weather_df=None):
    """Model for a configuration.  cfg['reuse'] = n > 0: the SAME input objects have first been used by n earlier
    model initialisations (the properties quantify over valid configurations, not over virgin objects)."""
    for pr in cfg.get("prior") or []:
        # objects constructed earlier in the process and never used by this model
        try:
            if "crop" in pr:
                build_crop(pr["crop"])
            elif "soil" in pr:
                build_soil(pr["soil"])
            elif "irr" in pr:
                build_irr(pr["irr"])
        except Exception:
            pass
    kw = build(cfg, weather_df)
    for _ in range(int(cfg.get("reuse", 0) or 0)):
        from .observe import init_guard

        try:
            with init_guard():
                AquaCropModel(**kw)._initialize()
        except Exception:
            break
    return AquaCropModel(**kw)


def clone(cfg):
    return copy.deepcopy(cfg)


def describe(cfg) -> str:
    """One-line human summary of a configuration (for evidence samples / logs)."""
    s = cfg["soil"]
    soil = s["type"] if s["type"] != "custom" else "custom%d" % len(s["layers"])
    if "dz" in s.get("args", {}):
        soil += "/dz%d" % len(s["args"]["dz"])
    irr = cfg.get("irr") or {"method": 0}
    gw = cfg.get("gw")
    fm = cfg.get("fm") or {}
    return "%s pl=%s hv=%s %s..%s off=%s soil=%s irr=m%d gw=%s bunds=%s mulch=%s iwc=%s/%s" % (
        cfg["crop"]["name"], cfg["crop"]["planting"], cfg["crop"].get("harvest"), cfg["start"], cfg["end"],
        cfg.get("off_season", False), soil, irr["method"],
        None if gw is None else "%s%s" % (gw.get("method", "Constant")[0], [round(v, 2) for v in gw["values"]]),
        fm.get("bunds", False), fm.get("mulches", False),
        (cfg.get("iwc") or {}).get("wc_type", "Prop"), (cfg.get("iwc") or {}).get("value", ["FC"]),
    )

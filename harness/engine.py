"""Campaign engine: sharded Hypothesis runs, fixed/regression cases, bucketing, known findings,
shrink-lite, evidence and exit codes.

A property module provides
    ID, RULE, ASSUMPTIONS, BUDGET = {'quick': n, 'thorough': n}
    strategy(tier)            -> Hypothesis strategy of JSON-serialisable cases
    evaluate(case)            -> Result
    fixed_cases(tier)         -> list of (name, case)   (regression cases, enumerated sub-spaces)
    simplifications(case)     -> iterable of simpler candidate cases (optional, for shrink-lite)
"""
import hashlib
import json
import multiprocessing as mp
import os
import sys
import time
import traceback

from . import VERIF

KNOWN_FILE = os.path.join(VERIF, "known_findings.json")
REPLAY_DIR = os.environ.get("VERIF_REPLAY_DIR") or os.path.join(VERIF, "replays")
EVIDENCE_DIR = os.environ.get("VERIF_EVIDENCE_DIR") or os.path.join(VERIF, "evidence")
NPROC = int(os.environ.get("VERIF_JOBS", "16"))


def case_hash(case) -> str:
    return hashlib.sha1(json.dumps(case, sort_keys=True, default=str).encode()).hexdigest()[:16]


class Result:
    """Outcome of evaluating one case."""

    __slots__ = ("violations", "labels", "nontrivial", "outcome", "sample", "excluded", "evals", "keys")

    def __init__(self):
        self.violations = []   # [(bucket, message)]
        self.labels = set()
        self.nontrivial = False
        self.outcome = "ok"    # ok | rejected | known | crash
        self.sample = None     # short description for the evidence file
        self.excluded = {}     # {known-finding key: count} sub-checks skipped because of a listed finding
        self.evals = 1         # number of oracle evaluations this case stands for (e.g. days, histories)
        self.keys = None       # optional: set of distinct non-trivial keys contributed by this case

    def fail(self, bucket, message):
        if len(self.violations) < 20:
            self.violations.append((bucket, message))

    def exclude(self, key, n=1):
        self.excluded[key] = self.excluded.get(key, 0) + n


def hyp_target(value, label):
    """hypothesis.target() when running inside a Hypothesis test, no-op otherwise."""
    try:
        import hypothesis

        hypothesis.target(float(value), label=label)
    except Exception:
        pass


def load_known():
    if not os.path.exists(KNOWN_FILE):
        return []
    with open(KNOWN_FILE) as f:
        return json.load(f)["findings"]


def match_known(prop_id, bucket, known):
    for k in known:
        if k.get("status") == "known" and k["property"] == prop_id and bucket == k["key"]:
            return k
    return None


# ------------------------------------------------------------------------------------------------
# shard workers
# ------------------------------------------------------------------------------------------------
class Acc:
    """Accumulator merged across shards."""

    def __init__(self):
        self.evaluations = 0
        self.cases = 0
        self.nontrivial = set()
        self.labels = {}
        self.outcomes = {}
        self.samples_nt = []
        self.samples_tr = []
        self.failures = {}      # bucket -> (case, message, size)
        self.excluded = {}
        self.crashes = {}
        self.errors = []        # harness errors (tracebacks)

    def add(self, case, res):
        self.cases += 1
        self.evaluations += res.evals
        h = case_hash(case)
        if res.keys is not None:
            self.nontrivial.update(res.keys)
        elif res.nontrivial:
            self.nontrivial.add(h)
        for lab in res.labels:
            self.labels[lab] = self.labels.get(lab, 0) + 1
        self.outcomes[res.outcome] = self.outcomes.get(res.outcome, 0) + 1
        for k, n in res.excluded.items():
            self.excluded[k] = self.excluded.get(k, 0) + n
        smp = res.sample
        if smp is not None:
            tgt = self.samples_nt if res.nontrivial else self.samples_tr
            if len(tgt) < 4:
                tgt.append(smp)
        size = len(json.dumps(case, default=str))
        for bucket, msg in res.violations:
            cur = self.failures.get(bucket)
            if cur is None or size < cur[2]:
                self.failures[bucket] = (case, msg, size)

    def merge(self, o):
        self.evaluations += o.evaluations
        self.cases += o.cases
        self.nontrivial |= o.nontrivial
        for d_self, d_o in ((self.labels, o.labels), (self.outcomes, o.outcomes), (self.excluded, o.excluded), (self.crashes, o.crashes)):
            for k, v in d_o.items():
                d_self[k] = d_self.get(k, 0) + v
        for a, b in ((self.samples_nt, o.samples_nt), (self.samples_tr, o.samples_tr)):
            for s in b:
                if len(a) < 6:
                    a.append(s)
        for bucket, t in o.failures.items():
            cur = self.failures.get(bucket)
            if cur is None or t[2] < cur[2]:
                self.failures[bucket] = t
        self.errors += o.errors


def regression_cases(prop_id):
    """Committed regression cases replays/regression-<id>-*.json (shrunk failures of fixed or known
    findings); they are replayed first in every run."""
    import glob

    out = []
    for path in sorted(glob.glob(os.path.join(VERIF, "replays", "regression-%s-*.json" % prop_id))):
        with open(path) as f:
            doc = json.load(f)
        out.append((os.path.basename(path), doc["case"] if "case" in doc else doc))
    return out


def _load(prop_id):
    import importlib

    return importlib.import_module("harness.props.%s" % prop_id)


CASE_TIMEOUT = int(os.environ.get("VERIF_CASE_TIMEOUT", "900"))
_IN_WORKER = False


class CaseTimeout(BaseException):
    """One case ran ~1000x longer than a case normally does: inconclusive (exit 2), the case is saved."""


def _on_case_alarm(signum, frame):
    raise CaseTimeout()


def _worker_init():
    """Pool workers: die with the parent (no orphans after a watchdog / kill), dump stacks on SIGUSR1,
    per-case wall-clock guard."""
    global _IN_WORKER
    import faulthandler
    import signal

    try:
        import ctypes

        ctypes.CDLL("libc.so.6", use_errno=True).prctl(1, int(signal.SIGKILL))  # PR_SET_PDEATHSIG
    except Exception:
        pass
    try:
        faulthandler.register(signal.SIGUSR1, all_threads=True)
    except Exception:
        pass
    signal.signal(signal.SIGALRM, _on_case_alarm)
    _IN_WORKER = True


def _safe_eval(mod, case, acc):
    import signal

    try:
        if _IN_WORKER:
            signal.alarm(CASE_TIMEOUT)
        try:
            res = mod.evaluate(case)
        finally:
            if _IN_WORKER:
                signal.alarm(0)
    except CaseTimeout:
        os.makedirs(REPLAY_DIR, exist_ok=True)
        path = os.path.join(REPLAY_DIR, "hang-%s-%s.json" % (getattr(mod, "ID", "?"), case_hash(case)))
        with open(path, "w") as f:
            json.dump({"property": getattr(mod, "ID", "?"), "bucket": "case_timeout", "case": case}, f, indent=1, default=str)
        acc.errors.append("INCONCLUSIVE: one case exceeded the per-case wall-clock guard of %d s; saved as %s\n%s"
                          % (CASE_TIMEOUT, path, traceback.format_exc()))
        return
    except Exception:
        acc.errors.append(traceback.format_exc())
        return
    acc.add(case, res)


def _hyp_shard(args):
    prop_id, tier, seed_value, shard, n = args
    import hypothesis
    from hypothesis import HealthCheck, Phase, given, settings

    mod = _load(prop_id)
    acc = Acc()
    strat = mod.strategy(tier)

    @hypothesis.seed(seed_value * 1000 + shard)
    @settings(max_examples=n, database=None, deadline=None, derandomize=False, report_multiple_bugs=False,
              phases=[Phase.generate, Phase.target], suppress_health_check=list(HealthCheck))
    @given(strat)
    def campaign(case):
        _safe_eval(mod, case, acc)
        if len(acc.errors) > 5:
            raise RuntimeError("too many harness errors")

    try:
        if n > 0:
            campaign()
    except Exception:
        acc.errors.append(traceback.format_exc())
    # optional: the property as a rule-based state machine (stateful mode)
    if hasattr(mod, "machine"):
        from hypothesis.stateful import run_state_machine_as_test

        nm = int(getattr(mod, "MACHINE_BUDGET", {}).get(tier, 0))
        per = (nm + NPROC - 1) // NPROC
        if per > 0:
            cls = mod.machine(tier, lambda case, res: acc.add(case, res))
            try:
                run_state_machine_as_test(
                    hypothesis.seed(seed_value * 1000 + 500 + shard)(cls),
                    settings=settings(max_examples=per, stateful_step_count=25, database=None, deadline=None, derandomize=False,
                                      report_multiple_bugs=False, phases=[Phase.generate], suppress_health_check=list(HealthCheck)))
            except Exception:
                acc.errors.append(traceback.format_exc())
    return acc


def _fixed_shard(args):
    prop_id, tier, cases = args
    mod = _load(prop_id)
    acc = Acc()
    for name, case in cases:
        _safe_eval(mod, case, acc)
    return acc


def _pool():
    return mp.get_context("fork").Pool(NPROC, initializer=_worker_init)


# ------------------------------------------------------------------------------------------------
# shrink-lite
# ------------------------------------------------------------------------------------------------
SHRINK_CASE_TIMEOUT = int(os.environ.get("VERIF_SHRINK_CASE_TIMEOUT", "120"))


def _shrink_job(args):
    prop_id, case, bucket, budget = args
    return shrink_lite(_load(prop_id), case, bucket, budget)


def _reproduces_fresh(prop_id, path):
    """Does `./check <id> --replay <path>` report the violation in a fresh interpreter?  (True on any doubt.)"""
    import subprocess

    try:
        env = dict(os.environ, VERIF_EVIDENCE_DIR=os.path.join(REPLAY_DIR, ".fresh_evidence"), VERIF_REPLAY_DIR=REPLAY_DIR)
        r = subprocess.run([sys.executable, "-W", "ignore", os.path.join(VERIF, "check"), prop_id, "--replay", path],
                           env=env, stdout=subprocess.PIPE, stderr=subprocess.DEVNULL, timeout=600)
        return r.returncode != 0 or b"VIOLATION" in r.stdout
    except Exception:
        return True


def _shrink_and_message(args):
    prop_id, case, bucket, budget, msg = args
    import signal

    mod = _load(prop_id)
    case, _ = shrink_lite(mod, case, bucket, budget)
    try:
        signal.alarm(SHRINK_CASE_TIMEOUT)
        try:
            r = mod.evaluate(case)
        finally:
            signal.alarm(0)
        msgs = [m for b, m in r.violations if b == bucket]
        if msgs:
            msg = msgs[0]
    except BaseException:
        pass
    return case, msg


def shrink_lite(mod, case, bucket, budget):
    """Greedy reduction over the module's candidate simplifications; every candidate is re-checked
    against the oracle and kept only if it still fails in the same bucket.  Runs in a pool worker: a candidate
    that does not finish within SHRINK_CASE_TIMEOUT seconds is simply not taken."""
    import signal

    if not hasattr(mod, "simplifications"):
        return case, 0
    used = 0
    improved = True
    while improved and used < budget:
        improved = False
        for cand in mod.simplifications(case):
            if used >= budget:
                break
            used += 1
            try:
                if _IN_WORKER:
                    signal.alarm(SHRINK_CASE_TIMEOUT)
                try:
                    r = mod.evaluate(cand)
                finally:
                    if _IN_WORKER:
                        signal.alarm(0)
            except CaseTimeout:
                continue
            except Exception:
                continue
            if any(b == bucket for b, _ in r.violations):
                case = cand
                improved = True
                break
    return case, used


# ------------------------------------------------------------------------------------------------
# main entry
# ------------------------------------------------------------------------------------------------
def run_check(prop_id, tier, seed_value, replay=None):
    t0 = time.time()
    mod = _load(prop_id)
    known = load_known()
    acc = Acc()

    if replay is not None:
        with open(replay) as f:
            doc = json.load(f)
        case = doc["case"] if "case" in doc else doc
        res = mod.evaluate(case)
        acc.add(case, res)
        n_fixed = 1
    else:
        fixed = list(mod.fixed_cases(tier)) if hasattr(mod, "fixed_cases") else []
        fixed += regression_cases(prop_id)
        n_fixed = len(fixed)
        n = int(mod.BUDGET[tier])
        W = min(NPROC, max(1, n // 4)) if n > 0 else 0
        jobs = []
        with _pool() as pool:
            if fixed:
                k = min(NPROC, len(fixed))
                chunks = [fixed[i::k] for i in range(k)]
                jobs.append(pool.map_async(_fixed_shard, [(prop_id, tier, c) for c in chunks]))
            if W:
                per = (n + W - 1) // W
                jobs.append(pool.map_async(_hyp_shard, [(prop_id, tier, seed_value, s, per) for s in range(W)]))
            for j in jobs:
                for a in j.get():
                    acc.merge(a)

    # ---- verdict -----------------------------------------------------------------------------
    lines = []
    violations = 0
    known_hit = 0
    os.makedirs(REPLAY_DIR, exist_ok=True)
    # shrink every unlisted failing bucket (in pool workers, which carry the per-case wall-clock guard)
    shrunk = {}
    todo = [(b, c, m) for b, (c, m, _) in sorted(acc.failures.items()) if match_known(prop_id, b, known) is None]
    if replay is None and todo:
        with _pool() as pool:
            out = pool.map(_shrink_and_message, [(prop_id, c, b, 25 if tier == "quick" else 80, m) for b, c, m in todo])
        for (b, _, _), (c2, m2) in zip(todo, out):
            shrunk[b] = (c2, m2)
    for bucket, (case, msg, _) in sorted(acc.failures.items()):
        k = match_known(prop_id, bucket, known)
        if k is not None:
            known_hit += 1
            lines.append("KNOWN-FINDING: property=%s %s [%s]" % (prop_id, k["what"], bucket))
            continue
        original, original_msg = case, msg
        if replay is None:
            case, msg = shrunk.get(bucket, (case, msg))
        violations += 1
        path = os.path.join(REPLAY_DIR, "%s-%s.json" % (prop_id, case_hash(case)))
        if replay is None:
            with open(path, "w") as f:
                json.dump({"property": prop_id, "bucket": bucket, "message": msg, "case": case}, f, indent=1, default=str)
            # the replay file must reproduce in a FRESH process (a failure that depends on what earlier cases left
            # behind in the campaign process can be shrunk to a case that no longer carries its own cause): if the
            # shrunk case does not, fall back to the unshrunk one
            if case is not original and not _reproduces_fresh(prop_id, path):
                path0 = os.path.join(REPLAY_DIR, "%s-%s.json" % (prop_id, case_hash(original)))
                with open(path0, "w") as f:
                    json.dump({"property": prop_id, "bucket": bucket, "message": original_msg, "case": original,
                               "note": "unshrunk: the reduced case did not reproduce in a fresh process"}, f, indent=1, default=str)
                case, msg, path = original, original_msg, path0
        else:
            path = replay
        print("  bucket=%s :: %s" % (bucket, msg))
        lines.append("VIOLATION property=%s replay=%s" % (prop_id, os.path.relpath(path, VERIF)))

    harness_broken = False
    if acc.errors:
        harness_broken = True
        print("HARNESS ERRORS (%d), first:\n%s" % (len(acc.errors), acc.errors[0]), file=sys.stderr)
    crashed = acc.outcomes.get("crash", 0)
    if replay is None and acc.cases and crashed > 0.5 * acc.cases and getattr(mod, "CRASH_IS_VIOLATION", False) is False:
        harness_broken = True
        print("INCONCLUSIVE: %d of %d cases crashed inside the library before the property could be observed"
              % (crashed, acc.cases), file=sys.stderr)

    wall = time.time() - t0
    if replay is None:
        samples = acc.samples_nt[:4] + acc.samples_tr[:2]
        if not samples:
            samples = ["<no case produced a sample>"]
        ev = {
            "property_id": prop_id,
            "tier": tier,
            "seed": int(seed_value),
            "level": "exploration",
            "coverage": {
                "evaluations": int(acc.evaluations),
                "cases": int(acc.cases),
                "fixed_cases": int(n_fixed),
                "distinct_nontrivial": int(len(acc.nontrivial)),
                "rule": mod.RULE,
                "samples": samples,
                "classes": dict(sorted(acc.labels.items())),
                "outcomes": dict(sorted(acc.outcomes.items())),
                "excluded_by_known_finding": dict(sorted(acc.excluded.items())),
                "known_findings_reproduced": known_hit,
                "exhaustive": bool(getattr(mod, "EXHAUSTIVE", {}).get(tier, False)),
                "exhaustive_note": getattr(mod, "EXHAUSTIVE_NOTE", ""),
            },
            "assumptions": list(mod.ASSUMPTIONS),
            "wall_s": round(wall, 2),
            "violations": int(violations),
        }
        os.makedirs(EVIDENCE_DIR, exist_ok=True)
        tmp = os.path.join(EVIDENCE_DIR, "%s.json.tmp" % prop_id)
        with open(tmp, "w") as f:
            json.dump(ev, f, indent=1, default=str)
        os.replace(tmp, os.path.join(EVIDENCE_DIR, "%s.json" % prop_id))

    crash_labels = {k: v for k, v in acc.labels.items() if k.startswith("crash:")}
    if crash_labels and not getattr(mod, "CRASH_IS_VIOLATION", False):
        # not this property's subject (C16 owns "runs to completion"), but never silent
        print("NOTE: %d case(s) raised inside the library before/while the property was observed: %s" % (
            sum(crash_labels.values()), ", ".join("%s x%d" % kv for kv in sorted(crash_labels.items()))))
    for ln in lines:
        print(ln)
    print("%s %s seed=%s: cases=%d evaluations=%d nontrivial=%d outcomes=%s excluded=%s violations=%d known=%d wall=%.1fs" % (
        prop_id, tier, seed_value, acc.cases, acc.evaluations, len(acc.nontrivial), acc.outcomes, acc.excluded, violations, known_hit, wall))
    if violations:
        return 1
    if harness_broken:
        return 2
    if replay is None and (acc.cases == 0 or len(acc.nontrivial) < 2):
        print("INCONCLUSIVE: fewer than 2 non-trivial cases", file=sys.stderr)
        return 2
    return 0

"""Reference arithmetic for the soil profile, written from the property statements (C18) and the
documented behaviour, independent of the library's DataFrame code.  Used by generators (to keep
inputs inside the sound domain) and by the C18/C19 oracles."""
import numpy as np


def r2(x):
    return round(float(x) + 0.0, 2)


def deepen(dz, zmax):
    """Thickness list after the profile has been extended to reach zmax + 0.1 m.

    Documented behaviour: while the profile is shallower than zmax+0.1, the deepest compartment that
    is thinner than 0.25 m grows by 0.1 m; when none is left the bottom compartment grows."""
    dz = [r2(v) for v in dz]
    guard = 0
    while r2(sum(dz)) < zmax + 0.1:
        guard += 1
        if guard > 2000:
            raise RuntimeError("reference deepening does not terminate")
        for i in range(len(dz) - 1, -1, -1):
            if dz[i] < 0.25:
                dz[i] = r2(dz[i] + 0.1)
                break
        else:
            dz[-1] = r2(dz[-1] + 0.1)
    return dz


def layer_of_compartments(dz, thicknesses):
    """Layer number (1-based) of every compartment of the *original* profile.

    Layer 1 covers the compartments whose bottom is not below its thickness; layer k > 1 covers the
    not yet assigned compartments whose bottom is not below (bottom of the last compartment of layer
    k-1) + thickness_k.  Compartments below the last layer inherit the layer above (documented
    fill-forward)."""
    dzsum = np.round(np.cumsum([r2(v) for v in dz]), 2)
    lay = np.zeros(len(dz), dtype=int)
    prev_bottom = 0.0
    for k, t in enumerate(thicknesses, start=1):
        limit = round(t, 2) if k == 1 else prev_bottom + t
        idx = [i for i in range(len(dz)) if lay[i] == 0 and dzsum[i] <= limit + 1e-12]
        for i in idx:
            lay[i] = k
        if idx:
            prev_bottom = float(dzsum[idx[-1]])
    last = 0
    for i in range(len(dz)):
        if lay[i] == 0:
            lay[i] = last
        last = lay[i]
    return lay


def tau_of(ksat):
    t = round(0.0866 * (ksat ** 0.35), 2)
    return min(1.0, max(0.0, t))

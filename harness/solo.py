"""Run one configuration alone in this (fresh) interpreter and print its digest.
Usage: python -m harness.solo < cfg.json   (prints 'DIGEST <hex>' | 'REJECTED <label>' | 'CRASH <bucket>')"""
import json
import sys

from . import REPO  # noqa: F401
from .observe import classify_rejection, digest, innermost_repo_frame, run_plain


def main():
    cfg = json.load(sys.stdin)
    try:
        m = run_plain(cfg)
    except Exception as e:
        lab = classify_rejection(e)
        if lab:
            print("REJECTED %s" % lab)
        else:
            fn, line, func = innermost_repo_frame(e)
            print("CRASH %s@%s:%s" % (type(e).__name__, fn, func))
        return
    print("DIGEST %s" % digest(m))


if __name__ == "__main__":
    main()

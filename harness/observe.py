"""Observation layer: step-wise driver, process wrappers, digests, rejection classification."""
import contextlib
import hashlib
import os
import sys
import traceback

import numpy as np
import pandas as pd

from . import REPO
from .config import make_model

import aquacrop.core as ac_core  # noqa: E402
import aquacrop.timestep.run_single_timestep as ac_rst  # noqa: E402
from aquacrop.entities.soil import Soil as _Soil  # noqa: E402

# column indices of the daily tables -------------------------------------------------------------
FLUX = {n: i for i, n in enumerate(
    "time_step_counter season_counter dap Wr z_gw surface_storage IrrDay Infl Runoff DeepPerc CR GwIn Es EsPot Tr TrPot".split())}
GROW = {n: i for i, n in enumerate(
    "time_step_counter season_counter dap gdd gdd_cum z_root canopy_cover canopy_cover_ns biomass biomass_ns "
    "harvest_index harvest_index_adj DryYield FreshYield YieldPot".split())}
STOR_TH0 = 3  # water_storage: time_step_counter, growing_season, dap, th1..thN
SUMMARY_COLS = [
    "Season", "crop Type", "Harvest Date (YYYY/MM/DD)", "Harvest Date (Step)", "Dry yield (tonne/ha)",
    "Fresh yield (tonne/ha)", "Yield potential (tonne/ha)", "Seasonal irrigation (mm)",
]


class HarnessError(Exception):
    """The harness could not observe what it needs (refactor of internals etc.) -> exit 2."""


class NoProgress(Exception):
    """Raised by the initialisation guard when the profile-deepening loop stops making progress."""


# ------------------------------------------------------------------------------------------------
# documented rejections (C16 statement): type + message + raising module
# ------------------------------------------------------------------------------------------------
def innermost_repo_frame(exc):
    tb = traceback.extract_tb(exc.__traceback__)
    fr = [f for f in tb if "/aquacrop/" in f.filename and "/harness/" not in f.filename]
    if not fr:
        return ("<none>", 0, "")
    f = fr[-1]
    return (f.filename.split("/aquacrop/")[-1], f.lineno, f.name)


def classify_rejection(exc):
    """Return a label if `exc` is one of the documented rejections, else None."""
    msg = str(exc)
    fn, _, func = innermost_repo_frame(exc)
    if isinstance(exc, ValueError) and "format must be 'YYYY/MM/DD'" in msg:
        return "date_format"
    if isinstance(exc, ValueError) and fn.endswith("read_weather_inputs.py") and "climate data" in msg:
        return "weather_coverage"
    if isinstance(exc, ValueError) and "less than 580 years" in msg:
        return "gt_580_years"
    if isinstance(exc, AssertionError) and "not enough growing degree days" in msg:
        return "too_few_gdd"
    if isinstance(exc, AssertionError) and "longer than 1 year to mature" in msg:
        return "more_than_a_year"
    return None


def is_malformed_date_error(exc):
    """pandas/dateutil refusing a date string that is not a real calendar date (e.g. 1991/02/29)."""
    name = type(exc).__name__
    msg = str(exc)
    if name in ("DateParseError", "ParserError", "OutOfBoundsDatetime") or isinstance(exc, ValueError):
        return ("day is out of range" in msg) or ("Unknown datetime string format" in msg) or (
            "out of range for month" in msg) or ("month must be in" in msg) or ("day must be in" in msg)
    return False


# ------------------------------------------------------------------------------------------------
# trace
# ------------------------------------------------------------------------------------------------
class Trace:
    def __init__(self, cfg):
        self.cfg = cfg
        self.model = None
        self.init_error = None      # exception raised by _initialize
        self.step_error = None      # (exception, index of the step that raised)
        self.overrun = False        # more steps than days in the window
        self.finished = False
        # per executed step
        self.tsc = []
        self.date = []
        self.season_before = []
        self.th_before = []
        self.ss_before = []
        self.post = []              # dict of post-step state (before any season reset)
        self.irr_calls = []         # (args, result) of the irrigation decision
        self.cr_calls = []          # dict(th_before, th_after, thfc, CR)
        self.gw_calls = []          # dict(th_fc_adj, wt_in_soil, zgw)
        self.proc = []              # per step: list of (process name, storage before, storage after, extra)
        self.hashes = []            # C12: per step parameter hashes (optional)
        self.wx = []                # weather record handed to the daily solution, per step (capture 'wx')
        # after the run
        self.flux = self.storage = self.growth = None
        self.summary = None

    # convenience --------------------------------------------------------------------------------
    @property
    def n(self):
        return len(self.tsc)

    def arrays(self):
        self.tsc_a = np.asarray(self.tsc, dtype=int)
        self.season_a = np.asarray(self.season_before, dtype=int)
        self.th_before_a = np.asarray(self.th_before, dtype=float).reshape(self.n, -1) if self.n else np.zeros((0, 0))
        self.ss_before_a = np.asarray(self.ss_before, dtype=float)
        return self


def _table(x):
    if isinstance(x, pd.DataFrame):
        return x.values.astype(float)
    return np.asarray(x, dtype=float)


@contextlib.contextmanager
def instrument(trace, capture=()):
    """Rebind names in the library's module namespaces with recording wrappers (restored on exit)."""
    saved = []

    def patch(mod, name, make):
        if not hasattr(mod, name):
            raise HarnessError("cannot observe %s.%s" % (mod.__name__, name))
        orig = getattr(mod, name)
        saved.append((mod, name, orig))
        setattr(mod, name, make(orig))

    def mk_update_time(orig):
        def w(clock_struct, new_cond, param_struct, weather, crop):
            trace.post.append(dict(
                th=np.array(new_cond.th, dtype=float),
                ss=float(new_cond.surface_storage),
                growing_season=bool(new_cond.growing_season),
                crop_mature=bool(new_cond.crop_mature),
                crop_dead=bool(new_cond.crop_dead),
                harvest_flag=bool(new_cond.harvest_flag),
                germination=bool(new_cond.germination),
                dap=int(new_cond.dap),
                z_root=float(new_cond.z_root),
                th_fc_adj=np.array(new_cond.th_fc_Adj, dtype=float),
                irr_cum=float(new_cond.irr_cum),
                growth_stage=float(new_cond.growth_stage),
                canopy_cover_adj=float(new_cond.canopy_cover_adj),
                finished=bool(clock_struct.model_is_finished),
            ))
            return orig(clock_struct, new_cond, param_struct, weather, crop)
        return w

    def mk_irrigation(orig):
        def w(*a):
            r = orig(*a)
            a2 = list(a)
            a2[13] = np.array(a[13], dtype=float)  # NewCond_th (copy)
            trace.irr_calls.append((a2, r))
            return r
        return w

    def mk_capillary(orig):
        def w(prof, nlayer, fshape, NewCond, FluxOut, water_table):
            th0 = np.array(NewCond.th, dtype=float)
            thfc = np.array(NewCond.th_fc_Adj, dtype=float)
            res = orig(prof, nlayer, fshape, NewCond, FluxOut, water_table)
            trace.cr_calls.append(dict(th_before=th0, th_after=np.array(res[0].th, dtype=float), thfc=thfc, CR=float(res[1])))
            return res
        return w

    def mk_gw(orig):
        def w(*a):
            res = orig(*a)
            trace.gw_calls.append(dict(th_fc_adj=np.array(res[0], dtype=float), wt_in_soil=res[1], zgw=res[2]))
            return res
        return w

    def mk_solution(orig):
        def w(init_cond, param_struct, clock_struct, weather_step, outputs):
            trace.wx.append([weather_step[0], weather_step[1], weather_step[2], weather_step[3],
                             weather_step[4] if len(weather_step) > 4 else None])
            return orig(init_cond, param_struct, clock_struct, weather_step, outputs)
        return w

    try:
        patch(ac_core, "update_time", mk_update_time)
        if "wx" in capture:
            patch(ac_core, "solution_single_time_step", mk_solution)
        if "irr" in capture:
            patch(ac_rst, "irrigation", mk_irrigation)
        if "cr" in capture:
            patch(ac_rst, "capillary_rise", mk_capillary)
        if "gw" in capture:
            patch(ac_rst, "check_groundwater_table", mk_gw)
        yield
    finally:
        for mod, name, orig in reversed(saved):
            setattr(mod, name, orig)


INIT_GUARD_STATS = {"max_calls": 0, "max_lines": 0}
_GUARD = {"active": False}


@contextlib.contextmanager
def init_guard(limit=3_000_000, line_limit=10_000_000):
    """Detect non-termination of model initialisation (profile-deepening loop, harvest-index
    coefficient iteration) without a timeout: a deterministic budget of Python-level function calls
    (a normal initialisation makes ~3e4) and of executed source lines inside the aquacrop package
    (a loop that only calls C functions makes no call events)."""
    if _GUARD["active"]:
        # re-entrant: an outer guard is already counting
        yield
        return
    state = {"n": 0, "lines": 0}
    pkg = os.path.join(os.path.dirname(os.path.abspath(__import__("aquacrop").__file__)), "")

    def local(frame, event, arg):
        if event == "line":
            state["lines"] += 1
            if state["lines"] > line_limit:
                sys.settrace(None)
                raise NoProgress("model initialisation executed more than %d source lines of the package "
                                 "(a normal one needs < 1e5): no progress in %s:%s"
                                 % (line_limit, os.path.basename(frame.f_code.co_filename), frame.f_code.co_name))
        return local

    def tracer(frame, event, arg):
        state["n"] += 1
        if state["n"] > limit:
            sys.settrace(None)
            raise NoProgress("model initialisation exceeded %d function calls (a normal one needs ~3e4): no progress" % limit)
        if frame.f_code.co_filename.startswith(pkg):
            return local
        return None

    old = sys.gettrace()
    _GUARD["active"] = True
    sys.settrace(tracer)
    try:
        yield
    finally:
        sys.settrace(old)
        _GUARD["active"] = False
        INIT_GUARD_STATS["max_calls"] = max(INIT_GUARD_STATS["max_calls"], state["n"])
        INIT_GUARD_STATS["max_lines"] = max(INIT_GUARD_STATS["max_lines"], state["lines"])


def initialize(model):
    with init_guard():
        model._initialize()


def _guard_every_initialisation():
    """Every initialisation -- also the one run_model(initialize_model=True) performs itself -- runs under the
    deterministic no-progress guard, so a non-terminating initialisation is a reproducible exception in every check
    instead of a wall-clock event."""
    orig = ac_core.AquaCropModel._initialize
    if getattr(orig, "_verif_guarded", False):
        return

    def _initialize(self, *a, **kw):
        with init_guard():
            return orig(self, *a, **kw)

    _initialize._verif_guarded = True
    ac_core.AquaCropModel._initialize = _initialize


_guard_every_initialisation()


def run_observed(cfg, capture=(), weather_df=None, model=None, step_hook=None, max_steps=None):
    """Initialise and step the model one day at a time through the public stepping API,
    recording the state before each step, the post-step state (before a possible season reset)
    and the rows written."""
    tr = Trace(cfg)
    m = model if model is not None else make_model(cfg, weather_df)
    tr.model = m
    try:
        initialize(m)
    except Exception as e:  # classified by the caller
        tr.init_error = e
        return tr.arrays()
    ck = m._clock_struct
    limit = len(ck.time_span) + 1
    tr.profile = snapshot_profile(m)
    with instrument(tr, capture):
        while not m._clock_struct.model_is_finished:
            ck = m._clock_struct
            ic = m._init_cond
            tr.tsc.append(int(ck.time_step_counter))
            tr.date.append(pd.Timestamp(ck.step_start_time))
            tr.season_before.append(int(ck.season_counter))
            tr.th_before.append(np.array(ic.th, dtype=float))
            tr.ss_before.append(float(ic.surface_storage))
            if step_hook is not None:
                step_hook(tr, m, "pre")
            try:
                m.run_model(num_steps=1, initialize_model=False)
            except Exception as e:
                tr.step_error = (e, len(tr.tsc) - 1)
                break
            if len(tr.post) != len(tr.tsc):
                raise HarnessError("update_time wrapper was not invoked exactly once per step")
            if step_hook is not None:
                step_hook(tr, m, "post")
            if len(tr.tsc) > limit:
                tr.overrun = True
                break
            if max_steps is not None and len(tr.tsc) >= max_steps:
                break
    tr.finished = bool(m._clock_struct.model_is_finished)
    if tr.n:
        try:
            tr.flux = _table(m.get_water_flux())
            tr.storage = _table(m.get_water_storage())
            tr.growth = _table(m.get_crop_growth())
        except ValueError:
            # the very first run_model call raised: the model does not count as "executed" and the public
            # getters refuse; the rows written by the completed part of that step are still in the tables
            tr.flux = _table(m._outputs.water_flux)
            tr.storage = _table(m._outputs.water_storage)
            tr.growth = _table(m._outputs.crop_growth)
        tr.summary = m._outputs.final_stats
    return tr.arrays()


def snapshot_profile(m):
    p = m._param_struct.Soil.Profile
    return {k: np.array(getattr(p, k)) for k in (
        "dz", "dzsum", "zBot", "z_top", "zMid", "Layer", "th_dry", "th_wp", "th_fc", "th_s", "Ksat", "tau", "Penetrability")}


# ------------------------------------------------------------------------------------------------
# digests (bitwise comparisons)
# ------------------------------------------------------------------------------------------------
def summary_values(df):
    """Seasonal summary rendered to a list of plain Python values (dates as ISO strings)."""
    out = []
    if df is None or df is False:
        return out
    for _, r in df.iterrows():
        row = []
        for v in r.tolist():
            if isinstance(v, (pd.Timestamp, np.datetime64)):
                row.append(pd.Timestamp(v).isoformat())
            elif isinstance(v, (np.integer, int)) and not isinstance(v, bool) and len(row) in (0, 3):
                row.append(int(v))          # season index / harvest step
            elif isinstance(v, (np.floating, float, np.integer, int)) and not isinstance(v, bool):
                row.append(float(v).hex())  # a number is a number (0 == 0.0)
            else:
                row.append(str(v))
        out.append(row)
    return out


def tables_of(m):
    return _table(m.get_water_flux()), _table(m.get_water_storage()), _table(m.get_crop_growth())


def outputs_of(m):
    """(flux, storage, growth, summary-values) of a model that has been run."""
    f, s, g = tables_of(m)
    return f, s, g, summary_values(m._outputs.final_stats)


def same_array(a, b):
    a = np.asarray(a, dtype=float)
    b = np.asarray(b, dtype=float)
    return a.shape == b.shape and np.array_equal(a, b, equal_nan=True)


def first_diff(a, b):
    """Human description of the first difference between two float tables."""
    a = np.asarray(a, dtype=float)
    b = np.asarray(b, dtype=float)
    if a.shape != b.shape:
        return "shape %s vs %s" % (a.shape, b.shape)
    neq = ~((a == b) | (np.isnan(a) & np.isnan(b)))
    if not neq.any():
        return None
    idx = np.argwhere(neq)[0]
    return "row %d col %d: %r vs %r (%d cells differ)" % (idx[0], idx[1], a[tuple(idx)], b[tuple(idx)], int(neq.sum()))


def digest(m):
    f, s, g, sm = outputs_of(m)
    h = hashlib.sha256()
    for t in (f, s, g):
        h.update(np.ascontiguousarray(t, dtype=np.float64).tobytes())
    h.update(repr(sm).encode())
    return h.hexdigest()


def compare_outputs(a, b, what=("flux", "storage", "growth", "summary")):
    """a, b: tuples from outputs_of.  Returns None if identical else a description."""
    names = ("flux", "storage", "growth")
    for i, n in enumerate(names):
        if n in what:
            d = first_diff(a[i], b[i])
            if d:
                return "%s %s" % (n, d)
    if "summary" in what and a[3] != b[3]:
        for i, (ra, rb) in enumerate(zip(a[3], b[3])):
            if ra != rb:
                return "summary row %d: %r vs %r" % (i, ra, rb)
        return "summary length %d vs %d" % (len(a[3]), len(b[3]))
    return None


def run_plain(cfg, weather_df=None):
    """Uninterrupted run to termination; returns the model (exceptions propagate)."""
    m = make_model(cfg, weather_df)
    with init_guard():
        m._initialize()
    m.run_model(till_termination=True, initialize_model=False)
    return m

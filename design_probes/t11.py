from common import *
from t4 import stepwise,balance
import traceback, multiprocessing as mp, sys
SOILS=['Clay','ClayLoam','Default','Loam','LoamySand','Sand','SandyClay','SandyClayLoam','SandyLoam','Silt','SiltClayLoam','SiltLoam','SiltClay','Paddy','ac_TunisLocal']
CROPS=[('Maize','05/01'),('Wheat','10/15'),('Potato','04/01'),('Tomato','05/15'),('PaddyRice','06/01'),('Quinoa','04/15'),('Sorghum','05/20'),('Barley','03/01'),('Tef','06/10'),('SugarBeet','04/01')]
def one(seed):
    rng=np.random.default_rng(seed)
    w=synth_weather(start='1998-01-01',days=2600,seed=seed,rain_p=rng.choice([0.05,0.3,0.6]),rain_scale=rng.choice([3,10,40]),tmean=rng.choice([14,20,26]))
    # storms
    for _ in range(rng.integers(0,6)): w.loc[rng.integers(700,1500),'Precipitation']=rng.uniform(80,300)
    cn,pdte=CROPS[rng.integers(len(CROPS))]; st=SOILS[rng.integers(len(SOILS))]
    if rng.random()<0.3:
        s=Soil('custom',dz=[0.1]*12,cn=int(rng.integers(40,95)),adj_cn=int(rng.integers(0,2)))
        s.add_layer(float(rng.choice([0.2,0.3,0.5])),0.10,0.22,0.41,float(rng.choice([5,50,1200])),100)
        s.add_layer(float(rng.choice([0.3,0.4])),0.32,0.50,0.54,float(rng.choice([2,15,100])),100)
        s.add_layer(5,0.15,0.31,0.46,float(rng.choice([1,30,500])),100); nl=3
    else:
        s=Soil(st,adj_cn=int(rng.integers(0,2))); nl=2 if st in('Paddy','ac_TunisLocal') else 1
    meth=int(rng.integers(0,6))
    kw={}
    if meth==1: kw=dict(SMT=list(rng.choice([20,50,80,100],4)))
    if meth==2: kw=dict(IrrInterval=int(rng.integers(1,15)))
    if meth==3: kw=dict(Schedule=pd.DataFrame({'Date':pd.to_datetime('2000-01-01')+pd.to_timedelta(np.sort(rng.choice(700,20,replace=False)),'D'),'Depth':rng.uniform(0,60,20)}))
    if meth==4: kw=dict(NetIrrSMT=float(rng.choice([30,70,100])))
    if meth==5: kw=dict(depth=float(rng.choice([0,2,15])))
    irr=IrrigationManagement(meth,AppEff=float(rng.choice([50,80,100])),MaxIrr=float(rng.choice([5,25,100])),MaxIrrSeason=float(rng.choice([50,300,10000])),WetSurf=float(rng.choice([30,100])),**kw)
    fm=FieldMngt(mulches=bool(rng.integers(2)),mulch_pct=float(rng.choice([0,50,100])),f_mulch=float(rng.choice([0.3,1.0])),bunds=bool(rng.integers(2)),z_bund=float(rng.choice([0,0.05,0.25])),bund_water=float(rng.choice([0,30,400])),sr_inhb=bool(rng.random()<0.2),curve_number_adj=True,curve_number_adj_pct=float(rng.choice([-20,0,5])))
    ffm=FieldMngt(mulches=bool(rng.integers(2)),bunds=bool(rng.random()<0.3),z_bund=0.1)
    gw=GroundWater('Y','Constant',dates=['2000/01/01'],values=[float(rng.choice([0.4,1.0,2.0,3.5]))]) if rng.random()<0.3 else None
    iw=rng.choice(['FC','WP','SAT'])
    iwc=InitialWaterContent(depth_layer=list(range(1,nl+1)),value=[iw]*nl) if rng.random()<0.7 else InitialWaterContent('Pct','Layer',list(range(1,nl+1)),[float(rng.uniform(0,100))]*nl)
    off=bool(rng.integers(2))
    y0=2000; start=f'{y0}/'+pdte if rng.random()<0.6 else f'{y0}/01/15'
    cfg=dict(sim_start_time=start,sim_end_time=f'{y0+1}/12/30',weather_df=w,soil=s,crop=Crop(cn,planting_date=pdte),initial_water_content=iwc,irrigation_management=irr,field_management=fm,fallow_field_management=ffm,groundwater=gw,off_season=off)
    desc=f'seed={seed} {cn} {st if nl<3 else "custom3"} m{meth} off={off} gw={gw.values if gw else None} bunds={fm.bunds}/{fm.z_bund} iw={iw}'
    try:
        m,rows=stepwise(**cfg); worst,bad=balance(m,rows)
        f=m.get_water_flux(); sto=m.get_water_storage(); p=m._param_struct.Soil.Profile
        sim=[r[0] for r in rows]
        th=sto.iloc[sim,3:].values
        msgs=[]
        tol_cr=0.05*p.dz.sum()+1e-6
        nb=[b for b in bad if abs(b[1])>(tol_cr if b[2]['CR']>0 else 1e-6)]
        if nb: msgs.append(f'BALANCE n={len(nb)} first tsc={nb[0][0]} err={nb[0][1]:.6g} row={ {k:round(float(v),4) for k,v in nb[0][2].items()} }')
        if (th>p.th_s+1e-9).any(): msgs.append(f'TH>SAT by {(th-p.th_s).max():.3g}')
        if (th<p.th_dry-1e-9).any(): msgs.append(f'TH<DRY by {(p.th_dry-th).max():.3g}')
        fs=f.iloc[sim]
        for c in ['IrrDay','Runoff','DeepPerc','CR','GwIn','Es','EsPot','Tr','TrPot','surface_storage']:
            if (fs[c]<-1e-9).any(): msgs.append(f'NEG {c} min={fs[c].min():.4g}')
        if (fs.Es>fs.EsPot+1e-9).any(): msgs.append('Es>EsPot')
        if (fs.Tr>fs.TrPot+1e-9).any(): msgs.append('Tr>TrPot')
        # C02
        wd=m._weather; P=np.array([wd[i][2] for i in sim],dtype=float)
        irrapp=np.where(meth==4,0,fs.IrrDay.values)*irr.AppEff/100
        e=P+irrapp-(fs.Infl.values+fs.Runoff.values)
        if np.abs(e).max()>1e-9: msgs.append(f'C02 partition err {np.abs(e).max():.4g} at {sim[int(np.argmax(np.abs(e)))]}')
        if (fs.Infl<-1e-9).any(): msgs.append(f'Infl<0 min {fs.Infl.min():.4g} n={(fs.Infl<-1e-9).sum()}')
        return desc,msgs
    except BaseException as e:
        tb=traceback.extract_tb(e.__traceback__)[-1]
        return desc,[f'RAISED {type(e).__name__} {str(e)[:80]} @ {tb.filename.split("/")[-1]}:{tb.lineno}']
if __name__=='__main__':
    n=int(sys.argv[1])
    with mp.Pool(16) as p:
        for desc,msgs in p.imap_unordered(one,range(n)):
            if msgs: print(desc,'\n    '+'\n    '.join(msgs))
    print('done')

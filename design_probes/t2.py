from common import *
import traceback
w=synth_weather()
base=dict(sim_start_time='2000/05/01',sim_end_time='2000/12/30',weather_df=w,soil=Soil('SandyLoam'),crop=Crop('Maize',planting_date='05/01'),initial_water_content=InitialWaterContent(value=['FC']))
def flux(m): return m.get_water_flux()
def same(a,b):
    return all(np.array_equal(x.values,y.values,equal_nan=True) for x,y in [(a.get_water_flux(),b.get_water_flux()),(a.get_crop_growth(),b.get_crop_growth()),(a.get_water_storage(),b.get_water_storage())])
m0=run(**base)
# C15 column permutation
w2=w[['Date','Precipitation','MinTemp','ReferenceET','MaxTemp']]
try:
    m1=run(**{**base,'weather_df':w2,'soil':Soil('SandyLoam'),'crop':Crop('Maize',planting_date='05/01')}); print('C15 permuted same:',same(m0,m1))
except Exception as e: print('C15 permuted raised',type(e).__name__,e)
w3=w.copy(); w3.insert(0,'Extra',1.0)
try:
    m1=run(**{**base,'weather_df':w3,'soil':Soil('SandyLoam'),'crop':Crop('Maize',planting_date='05/01')}); print('C15 extra-first same:',same(m0,m1))
except Exception as e: print('C15 extra raised',type(e).__name__,e)
w4=w.copy(); w4.index=w4.index+1000
m1=run(**{**base,'weather_df':w4,'soil':Soil('SandyLoam'),'crop':Crop('Maize',planting_date='05/01')}); print('C15 reindexed same:',same(m0,m1))
w5=w.iloc[300:1200]
m1=run(**{**base,'weather_df':w5,'soil':Soil('SandyLoam'),'crop':Crop('Maize',planting_date='05/01')}); print('C15 sliced same:',same(m0,m1))
# C12 z_cn
for zcn in (0.3,0.25):
    s=Soil('SandyLoam',z_cn=zcn)
    m=AquaCropModel(**{**base,'soil':s,'crop':Crop('Maize',planting_date='05/01')}); m._initialize()
    before=m._param_struct.Soil.Profile.dzsum.copy(); m.run_model(num_steps=40,initialize_model=False)
    print('C12 zcn',zcn,'dzsum changed:',not np.array_equal(before,m._param_struct.Soil.Profile.dzsum), m._param_struct.Soil.Profile.dzsum[:4])
# C11 rerun
m=run(**base); a=m.get_water_flux().copy(); m.run_model(till_termination=True); print('C11 rerun same model same:',np.array_equal(a.values,m.get_water_flux().values,equal_nan=True))
sch=pd.DataFrame({'Date':pd.to_datetime(['2000-06-01','2000-07-01']),'Depth':[25,30]})
irr=IrrigationManagement(irrigation_method=3,Schedule=sch)
m=run(**{**base,'irrigation_management':irr}); 
try:
    m.run_model(till_termination=True); print('C11 schedule rerun ok')
except Exception as e: print('C11 schedule rerun raised',type(e).__name__,e)
# C11 SwitchGDD
c=Crop('Maize',planting_date='05/01',SwitchGDD=1)
try:
    m=run(**{**base,'crop':c}); a=m.get_crop_growth().copy(); print('SwitchGDD yield',m.get_simulation_results().iloc[0,4])
    m.run_model(till_termination=True); print('C11 SwitchGDD rerun same:',np.array_equal(a.values,m.get_crop_growth().values,equal_nan=True), m.get_simulation_results().iloc[0,4])
except Exception as e: traceback.print_exc()

from common import *
w=synth_weather(days=2500)
def mk(start,end,irr=None,crop='Maize',pd_='05/01',**kw):
    return run(sim_start_time=start,sim_end_time=end,weather_df=w,soil=Soil('SandyLoam'),crop=Crop(crop,planting_date=pd_),initial_water_content=InitialWaterContent(value=['FC']),irrigation_management=irr,**kw)
def season_rows(m,k):
    out=[]
    for df in (m.get_water_flux(),m.get_crop_growth()):
        d=df[(df.season_counter==k)&(df.dap>0)].drop(columns=['time_step_counter','season_counter']).reset_index(drop=True)
        out.append(d)
    return out
for name,irr in [('rainfed',lambda:None),('smt',lambda:IrrigationManagement(1,SMT=[60]*4)),('int',lambda:IrrigationManagement(2,IrrInterval=7)),('net',lambda:IrrigationManagement(4,NetIrrSMT=70)),('const',lambda:IrrigationManagement(5,depth=3))]:
    mm=mk('2000/05/01','2002/12/30',irr())
    print(name, mm.get_simulation_results().iloc[:,[0,3,4,7]].values.tolist())
    for k in (1,2):
        ms=mk(f'{2000+k}/05/01',f'{2000+k}/12/30',irr())
        A=season_rows(mm,k); B=season_rows(ms,0)
        for a,b,nm in zip(A,B,('flux','growth')):
            if a.shape!=b.shape: print('  shape differs',k,nm,a.shape,b.shape); continue
            neq=~np.isclose(a.values.astype(float),b.values.astype(float),rtol=0,atol=0,equal_nan=True)
            if neq.any():
                cols=a.columns[neq.any(axis=0)].tolist(); firstrow=np.argmax(neq.any(axis=1))
                print('  season',k,nm,'DIFF cols',cols,'first row',firstrow, 'maxabs',np.nanmax(np.abs(a.values.astype(float)-b.values.astype(float))))
            else: print('  season',k,nm,'identical')

import os, warnings, time
os.environ['DEVELOPMENT']='True'
warnings.filterwarnings('ignore')
import numpy as np, pandas as pd
from aquacrop import AquaCropModel, Soil, Crop, InitialWaterContent, IrrigationManagement, FieldMngt, GroundWater, CO2
from aquacrop.utils import prepare_weather, get_filepath

def synth_weather(start='1999-01-01', days=1500, seed=0, rain_p=0.3, rain_scale=8, tmean=18, amp=8):
    rng=np.random.default_rng(seed)
    dates=pd.date_range(start, periods=days, freq='D')
    doy=dates.dayofyear.values
    tm=tmean+amp*np.sin(2*np.pi*(doy-110)/365)
    tmin=tm-5+rng.normal(0,1.5,days); tmax=tm+6+rng.normal(0,1.5,days)
    rain=np.where(rng.random(days)<rain_p, rng.exponential(rain_scale,days),0.0)
    et0=np.clip(3+2*np.sin(2*np.pi*(doy-110)/365)+rng.normal(0,.5,days),0.1,None)
    return pd.DataFrame({'MinTemp':tmin,'MaxTemp':tmax,'Precipitation':rain,'ReferenceET':et0,'Date':dates})
def run(**kw):
    m=AquaCropModel(**kw); m.run_model(till_termination=True); return m

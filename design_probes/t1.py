from common import *
w=synth_weather()
t=time.time()
m=run(sim_start_time='2000/05/01',sim_end_time='2000/12/30',weather_df=w,soil=Soil('SandyLoam'),crop=Crop('Maize',planting_date='05/01'),initial_water_content=InitialWaterContent(value=['FC']))
print('1 season wall',time.time()-t)
print(m.get_simulation_results())
f=m.get_water_flux(); print(f[f.dap>0].shape)
t=time.time(); m._initialize(); print('init wall',time.time()-t)

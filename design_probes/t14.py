# C19 daily relations + C20 neutral transformations prototypes (print only failures)
from common import *
import traceback, multiprocessing as mp, sys, copy
import aquacrop.timestep.run_single_timestep as rst
SOILS=['Clay','ClayLoam','Default','Loam','LoamySand','Sand','SandyClay','SandyClayLoam','SandyLoam','Silt','SiltClayLoam','SiltLoam','SiltClay','Paddy','ac_TunisLocal']
SHALLOW=['Default','PaddyRice','Quinoa','SugarBeet','Tomato','Tef','Cassava','PotatoLocalGDD','HydWheatGDD']  # Zmax<=1.0: no deepening on 1.2 m
DEEP=['Maize','Wheat','Sorghum','Cotton','Potato']
def tabs(m,dropz=False):
    f=m.get_water_flux(); f=f.drop(columns=['z_gw']) if dropz else f
    return [f.values.astype(float),m.get_crop_growth().values.astype(float),m.get_water_storage().values.astype(float)]
def eq(a,b,dropz=False): return all(np.array_equal(x,y,equal_nan=True) for x,y in zip(tabs(a,dropz),tabs(b,dropz))) and a.get_simulation_results().iloc[:,3:].values.astype(float).tolist()==b.get_simulation_results().iloc[:,3:].values.astype(float).tolist()
def c19(seed):
    rng=np.random.default_rng(seed); msgs=[]
    deep=rng.random()<0.4
    cn=(DEEP if deep else SHALLOW)[rng.integers(len(DEEP if deep else SHALLOW))]
    st=SOILS[rng.integers(len(SOILS))]; nl=2 if st in('Paddy','ac_TunisLocal') else 1
    w=synth_weather(start='1999-01-01',days=1500,seed=seed,tmean=24,amp=3,rain_p=float(rng.choice([0.05,0.4])))
    start=pd.Timestamp('2000-04-01'); end=pd.Timestamp('2000-12-30')
    kind=rng.choice(['const1','Constant','Variable'])
    if kind=='const1': dates=[start]; vals=[float(rng.choice([0.15,0.4,0.8,1.3,2.5,5.0]))]
    else:
        n=int(rng.integers(2,6)); offs=[0]+sorted(rng.choice(np.arange(1,270),n-1,replace=False).tolist())
        dates=[start+pd.Timedelta(days=int(o)) for o in offs]; vals=[float(x) for x in rng.choice([0.15,0.4,0.8,1.3,2.5,5.0],n)]
    gw=GroundWater('Y','Constant' if kind!='Variable' else 'Variable',dates=[d.strftime('%Y/%m/%d') for d in dates],values=vals)
    iw=rng.choice(['FC','WP','SAT'])
    desc=f'seed={seed} {cn} {st} gw={kind} {list(zip([d.strftime("%m-%d") for d in dates],vals))} iw={iw}'
    cfg=dict(sim_start_time='2000/04/01',sim_end_time='2000/12/30',weather_df=w,soil=Soil(st),crop=Crop(cn,planting_date='04/20'),initial_water_content=InitialWaterContent(depth_layer=list(range(1,nl+1)),value=[iw]*nl),groundwater=gw,irrigation_management=IrrigationManagement(int(rng.choice([0,1,4]))),off_season=bool(rng.integers(2)))
    rec={}
    o_chk,o_cr,o_gi=rst.check_groundwater_table,rst.capillary_rise,rst.groundwater_inflow
    def w_chk(*a):
        r=o_chk(*a); rec['fcadj']=np.array(r[0]).copy(); return r
    def w_cr(prof,nl_,fs,NC,FluxOut,wt):
        before=NC.th.copy(); r=o_cr(prof,nl_,fs,NC,FluxOut,wt); rec['cr']=(before,r[0].th.copy(),np.array(r[0].th_fc_Adj).copy(),r[1]); return r
    rst.check_groundwater_table,rst.capillary_rise=w_chk,w_cr
    try:
        m=AquaCropModel(**cfg); m._initialize(); P=m._param_struct.Soil.Profile
        dz=P.dz; bot=np.cumsum(dz); mid=bot-dz/2; span=m._clock_struct.time_span
        # reference series
        dn=np.array([(d-start).days for d in dates],dtype=float)
        days=np.arange(len(span),dtype=float)
        if kind=='Variable': ref=np.interp(days,dn,vals)
        else: ref=np.array([vals[max(0,np.searchsorted(dn,x,side='right')-1)] for x in days])
        zg=np.asarray(m._param_struct.z_gw,dtype=float)
        if abs(zg-ref).max()>1e-9: msgs.append(f'z_gw series differs from reference max {abs(zg-ref).max()}')
        while not m._clock_struct.model_is_finished:
            t=m._clock_struct.time_step_counter; m.run_model(num_steps=1,initialize_model=False)
            z=zg[t]; fa=rec['fcadj']
            if (fa<P.th_fc-1e-12).any() or (fa>P.th_s+1e-12).any(): msgs.append(f't{t} fcadj out of [fc,sat]'); break
            far=(z-mid)>=2.0
            if (fa[far]!=P.th_fc[far]).any(): msgs.append(f't{t} fcadj != fc far above'); break
            th=m._init_cond.th
            below=mid>=z
            if (np.abs(th[below]-P.th_s[below])>1e-9).any(): msgs.append(f'F18a? t{t} comps below table not saturated: z={z} mids={mid[below][:3]} th={th[below][:3]} ths={P.th_s[below][:3]} deepened={abs(P.zMid-mid).max()>1e-9}'); break
            b,a,fcadj,cr=rec['cr']
            if (a>np.maximum(b,fcadj+5e-5)+1e-12).any(): msgs.append(f't{t} CR lifted above fcadj'); break
        return desc,msgs
    except BaseException as e:
        tb=[x for x in traceback.extract_tb(e.__traceback__) if 'aquacrop' in x.filename or 't14' in x.filename][-1]
        return desc,[f'RAISED {type(e).__name__} {str(e)[:90]} @ {tb.filename.split("/")[-1]}:{tb.lineno}']
    finally: rst.check_groundwater_table,rst.capillary_rise,rst.groundwater_inflow=o_chk,o_cr,o_gi
def c20(seed):
    rng=np.random.default_rng(seed); msgs=[]
    cn=rng.choice(['Maize','Wheat','Tomato','Quinoa','Potato','Barley']); st=SOILS[rng.integers(len(SOILS))]; nl=2 if st in('Paddy','ac_TunisLocal') else 1
    w=synth_weather(start='1999-01-01',days=1500,seed=seed,tmean=22,amp=5,rain_p=0.3,rain_scale=float(rng.choice([5,25])))
    def base(irr=None,fm=None,crop=None):
        return run(sim_start_time='2000/04/01',sim_end_time='2001/03/30',weather_df=w,soil=Soil(st),crop=crop or Crop(cn,planting_date='04/20'),initial_water_content=InitialWaterContent(depth_layer=list(range(1,nl+1)),value=['FC']*nl),irrigation_management=irr,field_management=fm)
    desc=f'seed={seed} {cn} {st}'
    try:
        b=base()
        T={
         'mulch params w/o mulches':dict(fm=FieldMngt(mulches=False,mulch_pct=float(rng.uniform(0,100)),f_mulch=float(rng.uniform(0,1)))),
         'bund params w/o bunds':dict(fm=FieldMngt(bunds=False,z_bund=float(rng.uniform(0,0.3)),bund_water=float(rng.uniform(0,200)))),
         'cn pct w/o flag':dict(fm=FieldMngt(curve_number_adj=False,curve_number_adj_pct=float(rng.choice([-30,-10,10])))),
         'mulch cover 0':dict(fm=FieldMngt(mulches=True,mulch_pct=0,f_mulch=float(rng.uniform(0.1,1)))),
         'mulch factor 0':dict(fm=FieldMngt(mulches=True,mulch_pct=float(rng.uniform(1,100)),f_mulch=0)),
         'rainfed other params':dict(irr=IrrigationManagement(0,AppEff=float(rng.uniform(30,99)),WetSurf=float(rng.uniform(10,99)),SMT=[50]*4,IrrInterval=5,NetIrrSMT=30,depth=12,MaxIrr=3)),
         'm5 depth0':dict(irr=IrrigationManagement(5,depth=0)),
         'm3 empty':dict(irr=IrrigationManagement(3)),
         'm1 MaxIrr0':dict(irr=IrrigationManagement(1,SMT=[80]*4,MaxIrr=0)),
         'm2 MaxIrrSeason0':dict(irr=IrrigationManagement(2,IrrInterval=4,MaxIrrSeason=0)),
         'm5 MaxIrr0':dict(irr=IrrigationManagement(5,depth=10,MaxIrr=0)),
        }
        for nm,kw in T.items():
            try:
                t=base(**kw)
                if not eq(b,t): msgs.append(f'{nm}: differs')
            except BaseException as e:
                tb=[x for x in traceback.extract_tb(e.__traceback__) if 'aquacrop' in x.filename][-1]; msgs.append(f'{nm}: RAISED {type(e).__name__} {str(e)[:60]} @ {tb.filename.split("/")[-1]}:{tb.lineno}')
        # non-selected strategy params
        i1=base(irr=IrrigationManagement(2,IrrInterval=6)); i2=base(irr=IrrigationManagement(2,IrrInterval=6,SMT=[30,40,50,60],NetIrrSMT=20,depth=9))
        if not eq(i1,i2): msgs.append('non-selected strategy params matter')
        return desc,msgs
    except BaseException as e:
        tb=[x for x in traceback.extract_tb(e.__traceback__) if 'aquacrop' in x.filename or 't14' in x.filename][-1]
        return desc,[f'RAISED {type(e).__name__} {str(e)[:90]} @ {tb.filename.split("/")[-1]}:{tb.lineno}']
if __name__=='__main__':
    which,n=sys.argv[1],int(sys.argv[2]); nf=0
    with mp.Pool(16) as p:
        for desc,msgs in p.imap_unordered(c19 if which=='c19' else c20,range(n)):
            if msgs: nf+=1; print(desc,'\n    '+'\n    '.join(msgs[:6]))
    print('done; cases with msgs',nf,'of',n)

from common import *
def stepwise(**kw):
    m=AquaCropModel(**kw); m._initialize()
    rows=[]
    while not m._clock_struct.model_is_finished:
        th0=m._init_cond.th.copy(); ss0=m._init_cond.surface_storage; tsc=m._clock_struct.time_step_counter
        m.run_model(num_steps=1,initialize_model=False)
        rows.append((tsc,th0,ss0))
    return m,rows
def balance(m,rows):
    prof=m._param_struct.Soil.Profile; dz=prof.dz
    f=m.get_water_flux(); st=m.get_water_storage()
    worst=0; bad=[]
    for tsc,th0,ss0 in rows:
        r=f.iloc[tsc]; th1=st.iloc[tsc,3:].values
        S0=(th0*dz).sum()*1000+ss0; S1=(th1*dz).sum()*1000+r.surface_storage
        irrnet = r.IrrDay if m._param_struct.IrrMngt.irrigation_method==4 else 0
        rhs=r.Infl+irrnet+r.CR+r.GwIn-r.DeepPerc-r.Es-r.Tr
        err=(S1-S0)-rhs
        if abs(err)>1e-6: bad.append((tsc,err,dict(r)))
        worst=max(worst,abs(err))
    return worst,bad
if __name__=='__main__':
    w=synth_weather(days=2500,seed=1,rain_p=0.3,rain_scale=15)
    cfgs={
     'rainfed':dict(),
     'smt_eff70':dict(irrigation_management=IrrigationManagement(1,SMT=[70]*4,AppEff=70)),
     'net_wp':dict(irrigation_management=IrrigationManagement(4,NetIrrSMT=70),initial_water_content=InitialWaterContent(value=['WP'])),
     'bunds':dict(field_management=FieldMngt(bunds=True,z_bund=0.1,bund_water=20)),
     'mulch':dict(field_management=FieldMngt(mulches=True,mulch_pct=80,f_mulch=0.5)),
     'paddy_bunds':dict(soil=Soil('Paddy'),crop=Crop('PaddyRice',planting_date='05/01'),field_management=FieldMngt(bunds=True,z_bund=0.2,bund_water=50),irrigation_management=IrrigationManagement(5,depth=10)),
     'gw':dict(groundwater=GroundWater(water_table='Y',dates=['2000/05/01'],values=[1.5])),
     'gw_shallow':dict(groundwater=GroundWater(water_table='Y',dates=['2000/05/01'],values=[0.8])),
     'offseason':dict(off_season=True,sim_end_time='2001/12/30'),
     'sat':dict(initial_water_content=InitialWaterContent(value=['SAT'])),
     'clay':dict(soil=Soil('Clay')),
    }
    for name,kw in cfgs.items():
        base=dict(sim_start_time='2000/05/01',sim_end_time='2000/12/30',weather_df=w,soil=Soil('SandyLoam'),crop=Crop('Maize',planting_date='05/01'),initial_water_content=InitialWaterContent(value=['FC']))
        base.update(kw)
        try:
            m,rows=stepwise(**base); worst,bad=balance(m,rows)
            f=m.get_water_flux()
            print(name,'days',len(rows),'worst',worst,'nbad',len(bad), 'minEsPot',f.EsPot.min(),'max(Es-EsPot)',(f.Es-f.EsPot).max(),'minInfl',f.Infl.min(),'maxRunoff',f.Runoff.max(),'CRsum',f.CR.sum(),'GwIn',f.GwIn.sum())
            for b in bad[:2]: print('   ',b[0],b[1],{k:round(float(v),4) for k,v in b[2].items() if k not in('time_step_counter','season_counter')})
        except Exception as e:
            import traceback; traceback.print_exc(); print(name,'RAISED',type(e).__name__,e)

from common import *
import traceback
w=synth_weather(start='1995-01-01',days=4000,seed=5)
B=lambda **kw:{**dict(sim_start_time='2000/05/01',sim_end_time='2001/12/30',weather_df=w,soil=Soil('SandyLoam'),crop=Crop('Maize',planting_date='05/01'),initial_water_content=InitialWaterContent(value=['FC'])),**kw}
def tabs(m): return [m.get_water_flux().values.astype(float),m.get_crop_growth().values.astype(float),m.get_water_storage().values.astype(float)]
def eq_prefix(a,b,n): return all(np.array_equal(x[:n],y[:n],equal_nan=True) for x,y in zip(tabs(a),tabs(b)))
# C14 perturb from t
m0=run(**B())
for t in (10,60,131,200,400):
    w2=w.copy(); i0=w2.index[w2.Date==pd.Timestamp('2000-05-01')][0]+t
    w2.loc[i0:,'Precipitation']+=5; w2.loc[i0:,'MaxTemp']+=3; w2.loc[i0:,'ReferenceET']*=1.3
    m1=run(**B(weather_df=w2,soil=Soil('SandyLoam'),crop=Crop('Maize',planting_date='05/01')))
    print('C14 cut',t,'prefix equal',eq_prefix(m0,m1,t),'whole equal',eq_prefix(m0,m1,10**6))
# end extension, various crops
for cn,pdte,st,e1,e2 in [('Maize','05/01','2000/05/01','2001/12/30','2003/06/30'),('Wheat','10/01','2000/10/01','2002/09/30','2004/03/15'),('MaizeGDD','05/01','2000/05/01','2001/12/30','2003/06/30'),('WheatGDD','10/01','2000/10/01','2002/09/30','2004/03/15')]:
    try:
        a=run(**B(crop=Crop(cn,planting_date=pdte),sim_start_time=st,sim_end_time=e1)); b=run(**B(crop=Crop(cn,planting_date=pdte),sim_start_time=st,sim_end_time=e2))
        ra,rb=a.get_simulation_results(),b.get_simulation_results()
        n=len(ra); same=np.array_equal(ra.iloc[:,3:].values.astype(float),rb.iloc[:n,3:].values.astype(float))
        laststep=int(ra.iloc[-1,3]); 
        print('C14 ext',cn,'seasons',len(ra),len(rb),'summary same',same,'daily prefix same',eq_prefix(a,b,laststep+1))
    except Exception as e: traceback.print_exc()
# C20 harvest date explicit
for cn,pdte,st,e in [('Maize','05/01','2000/05/01','2001/12/30'),('Wheat','10/01','2000/10/01','2002/09/30'),('MaizeGDD','05/01','2000/05/01','2001/12/30'),('PotatoGDD','04/15','2000/04/15','2001/12/30')]:
    c=Crop(cn,planting_date=pdte); a=run(**B(crop=c,sim_start_time=st,sim_end_time=e)); hd=c.harvest_date
    b=run(**B(crop=Crop(cn,planting_date=pdte,harvest_date=hd),sim_start_time=st,sim_end_time=e))
    print('C20 harvest',cn,hd,'same',eq_prefix(a,b,10**6), np.array_equal(a.get_simulation_results().iloc[:,3:].values.astype(float),b.get_simulation_results().iloc[:,3:].values.astype(float)))

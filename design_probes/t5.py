from common import *
from t4 import stepwise,balance
import traceback
w=synth_weather(days=2500,seed=2,rain_p=0.35,rain_scale=10,tmean=22)
base=lambda **kw:{**dict(sim_start_time='2000/05/01',sim_end_time='2000/12/30',weather_df=w,soil=Soil('SandyLoam'),crop=Crop('Maize',planting_date='05/01'),initial_water_content=InitialWaterContent(value=['FC'])),**kw}
# C04
for cn in ('Soybean','DryBean','Cotton'):
    m=run(**base(crop=Crop(cn,planting_date='05/01'),irrigation_management=IrrigationManagement(1,SMT=[80]*4)))
    f=m.get_water_flux(); g=m.get_crop_growth()
    print('C04',cn,'maxCC',g.canopy_cover.max(),'minEsPot',f.EsPot.min(),'minEs',f.Es.min(),'max(Es-EsPot)',(f.Es-f.EsPot).max(), 'n neg',(f.EsPot<0).sum())
# C05 restrictive layer
s=Soil('custom',dz=[0.1]*12); s.add_layer(0.4,0.1,0.22,0.41,1200,100); s.add_layer(0.8,0.15,0.31,0.46,500,40)
m=run(**base(soil=s)); g=m.get_crop_growth(); g=g[g.dap>0]
dz=np.diff(g.z_root.values); print('C05 restrictive: min dZroot',dz.min(),'n neg',(dz<-1e-12).sum(),'zroot range',g.z_root.min(),g.z_root.max())
print(g.z_root.values[:40].round(3))
# C16 ETadj=0
try:
    m=run(**base(crop=Crop('Maize',planting_date='05/01',ETadj=0))); print('ETadj=0 ok')
except Exception as e: print('ETadj=0 RAISED',type(e).__name__,e)
for cn in ('Cassava','MaizeChampionGDD','localpaddy','PotatoLocalGDD'):
    try:
        m=run(**base(crop=Crop(cn,planting_date='05/01'),sim_end_time='2001/12/30')); r=m.get_simulation_results(); g=m.get_crop_growth()
        print(cn,'fresh',r.iloc[0,5],'dry',r.iloc[0,4],'nonfinite in growth',(~np.isfinite(g.values.astype(float))).sum())
    except Exception as e: print(cn,'RAISED',type(e).__name__,e)
for flag in ('PlantMethod','CropType','GDDmethod','Determinant','PolHeatStress','PolColdStress','TrColdStress'):
    for v in (0,1,2,3):
        if flag in('PlantMethod','Determinant','PolHeatStress','PolColdStress','TrColdStress') and v>1: continue
        if flag in('CropType','GDDmethod') and v==0: continue
        try:
            m=run(**base(crop=Crop('Maize',planting_date='05/01',**{flag:v}))); 
        except Exception as e: print(flag,v,'RAISED',type(e).__name__,e)

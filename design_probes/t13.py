# C07 reference calendar + C13 contracts + C19 daily relations prototypes (print only failures)
from common import *
import traceback, multiprocessing as mp, sys
import aquacrop.timestep.run_single_timestep as rst
from aquacrop.entities.crops.crop_params import crop_params
SOILS=['Clay','ClayLoam','Default','Loam','LoamySand','Sand','SandyClay','SandyClayLoam','SandyLoam','Silt','SiltClayLoam','SiltLoam','SiltClay','Paddy','ac_TunisLocal']
CAL=[c for c,v in crop_params.items() if v['CalendarType']==1 and v['MaturityCD']<330 and v['Zmax']<=2.3]
GDD=[c for c,v in crop_params.items() if v['CalendarType']==2 and v['Zmax']<=2.3]
def refgdd(meth,tupp,tbase,tmax,tmin):
    if meth==1: tm=min(max((tmax+tmin)/2,tbase),tupp)
    elif meth==2: tm=(min(max(tmax,tbase),tupp)+min(max(tmin,tbase),tupp))/2
    else: tm=max((min(max(tmax,tbase),tupp)+min(tmin,tupp))/2,tbase)
    return tm-tbase
def one(seed):
    rng=np.random.default_rng(seed); msgs=[]
    gddcrop=rng.random()<0.35
    cn=(GDD if gddcrop else CAL)[rng.integers(len(GDD if gddcrop else CAL))]
    w=synth_weather(start='1997-01-01',days=4400,seed=seed,tmean=float(rng.choice([20,25])),amp=float(rng.choice([2,9])),rain_p=0.3)
    pm,pdd=int(rng.integers(1,13)),int(rng.integers(1,29)); pdte=f'{pm:02d}/{pdd:02d}'
    y0=int(rng.integers(1999,2003))
    plant0=pd.Timestamp(y0,pm,pdd)
    rel=rng.choice(['on','before','after'])
    start=plant0 if rel=='on' else plant0-pd.Timedelta(days=int(rng.integers(1,60))) if rel=='before' else plant0+pd.Timedelta(days=int(rng.integers(1,250)))
    end=start+pd.Timedelta(days=int(rng.choice([40,150,400,800,1300])))
    off=bool(rng.integers(2))
    hd=None
    if rng.random()<0.25:
        hdt=pd.Timestamp(1999,pm,pdd)+pd.Timedelta(days=int(rng.integers(40,200))); hd=f'{hdt.month:02d}/{hdt.day:02d}'
        if hd=='02/29': hd=None
    meth=int(rng.integers(0,6)); kw={}
    if meth==1: kw=dict(SMT=[float(x) for x in rng.choice([20,50,80,100],4)])
    if meth==2: kw=dict(IrrInterval=int(rng.integers(1,15)))
    if meth==3:
        ds=pd.to_datetime(start)+pd.to_timedelta(np.sort(rng.choice(np.arange(-30,(end-start).days+30),25,replace=False)),'D')
        kw=dict(Schedule=pd.DataFrame({'Date':ds,'Depth':rng.uniform(0,60,25)}))
    if meth==4: kw=dict(NetIrrSMT=float(rng.choice([30,70,100])))
    if meth==5: kw=dict(depth=float(rng.choice([0,2,15,40])))
    irr=IrrigationManagement(meth,AppEff=float(rng.choice([50,80,100])),MaxIrr=float(rng.choice([5,25,100])),MaxIrrSeason=float(rng.choice([50,300,10000])),**kw)
    st=SOILS[rng.integers(len(SOILS))]; nl=2 if st in('Paddy','ac_TunisLocal') else 1
    desc=f'seed={seed} {cn} plant={pdte} start={start.date()} end={end.date()} off={off} hd={hd} m{meth}'
    cfg=dict(sim_start_time=start.strftime('%Y/%m/%d'),sim_end_time=end.strftime('%Y/%m/%d'),weather_df=w,soil=Soil(st),crop=Crop(cn,planting_date=pdte,harvest_date=hd),initial_water_content=InitialWaterContent(depth_layer=list(range(1,nl+1)),value=['FC']*nl),irrigation_management=irr,off_season=off)
    calls=[]; orig=rst.irrigation
    def wrap(*a):
        r=orig(*a); calls.append((a,r)); return r
    rst.irrigation=wrap
    try:
        m=AquaCropModel(**cfg)
        try: m._initialize()
        except (AssertionError,IndexError) as e: return desc,[f'init-rejected {type(e).__name__} {str(e)[:50]}'] if isinstance(e,IndexError) and False else [],0
        ck=m._clock_struct; span=ck.time_span
        visited=[]; seasons_at=[]
        try:
            while not ck.model_is_finished:
                visited.append((ck.time_step_counter,ck.step_start_time,ck.season_counter)); m.run_model(num_steps=1,initialize_model=False); ck=m._clock_struct
                if len(visited)>len(span): msgs.append('too many steps'); break
        except AssertionError as e:
            return desc,[],0
        f=m.get_water_flux(); g=m.get_crop_growth(); res=m.get_simulation_results()
        pds=list(ck.planting_dates); hds=list(ck.harvest_dates)
        # planting dates consecutive years at mm/dd, first >= start
        exp0=pd.Timestamp(start.year,pm,pdd); exp0=exp0 if exp0>=start else pd.Timestamp(start.year+1,pm,pdd)
        if pds and pds[0]!=exp0: msgs.append(f'first planting {pds[0]} expected {exp0}')
        for a,b in zip(pds,pds[1:]):
            if b!=pd.Timestamp(a.year+1,pm,pdd): msgs.append('planting not consecutive')
        # reference walk
        crop=m._param_struct.Seasonal_Crop_List
        exp=[]; d=start; k=0 if (pds and pds[0]==start) else -1; idx=0
        tbl_dap=g.dap.values; 
        simrows={t:i for i,(t,_,_) in enumerate(visited)}
        # walk using observed harvest events from table: event day = row where (mature|dead|latest) first
        harvest_steps={int(r['Season']):int(r['Harvest Date (Step)']) for _,r in res.iterrows()}
        i=0; cur=0; n=len(span)
        while True:
            exp.append(cur)
            # finished?
            dnext=span[cur+1] if cur+1<n else None
            kcur=max([j for j,p in enumerate(pds) if p<=span[cur]],default=-1)
            harvested=(kcur in harvest_steps and harvest_steps[kcur]<=cur)
            if (dnext is None) or dnext>=span[-1] or (harvested and kcur==len(pds)-1): break
            if harvested and not off and harvest_steps[kcur]==cur:
                cur=span.get_loc(pds[kcur+1])
            else: cur+=1
        got=[t for t,_,_ in visited]
        if got!=exp: 
            j=next((q for q,(a,b) in enumerate(zip(got,exp)) if a!=b),min(len(got),len(exp)))
            msgs.append(f'visited sequence differs at pos {j}: got {got[j:j+3]} exp {exp[j:j+3]} len {len(got)} {len(exp)}')
        for t,dte,_ in visited:
            if span[t]!=dte: msgs.append('clock date != span[tsc]'); break
        if any(f.time_step_counter.values[t]!=t for t in got): msgs.append('row tsc mismatch')
        # dap & harvest events per season
        for k,p in enumerate(pds):
            rows=[t for t in got if (f.season_counter.values[t]==k)]
            ins=[t for t in rows if tbl_dap[t]>0]
            if not ins: continue
            p0=span.get_loc(p)
            if ins[0]!=p0: msgs.append(f's{k} first in-season row {ins[0]} != planting idx {p0}')
            if list(tbl_dap[ins])!=list(range(1,len(ins)+1)) or ins!=list(range(ins[0],ins[0]+len(ins))): msgs.append(f's{k} dap not 1..n contiguous')
            # expected harvest event
            cr=crop[k]
            gs=g.loc[ins]
            if cr.CalendarType==1: mat=[t for t in ins if tbl_dap[t]>=cr.Maturity]
            else:
                wd=m._weather; gg=np.cumsum([refgdd(cr.GDDmethod,cr.Tupp,cr.Tbase,float(wd[t][1]),float(wd[t][0])) for t in ins])
                if abs(gg-gs.gdd_cum.values).max()>1e-8: msgs.append(f's{k} gdd_cum differs from reference {abs(gg-gs.gdd_cum.values).max()}')
                mat=[t for t,c in zip(ins,gs.gdd_cum.values) if c>=cr.Maturity]
            latest=span.get_loc(hds[k])-1 if hds[k] in span else None
            cands=[x for x in [mat[0] if mat else None, latest] if x is not None]
            # death: canopy->0 after having been >0 flagged by model crop_dead; accept earlier harvest only if CC==0 at that row and previously >0
            if k in harvest_steps:
                hs=harvest_steps[k]
                if cands and hs>min(cands): msgs.append(f's{k} harvest step {hs} later than expected {min(cands)}')
                if cands and hs<min(cands):
                    cc=g.canopy_cover.values
                    if not (cc[hs]==0 and cc[ins[0]:hs].max()>0): msgs.append(f's{k} harvest step {hs} earlier than {min(cands)} without crop death')
                extra=[t for t in ins if t>hs]
                if extra: msgs.append(f'F7 s{k} {len(extra)} in-season rows after harvest (off={off}, by_latest={hs==latest})')
            else:
                if cands and min(cands)<=got[-1] and min(cands) in got: msgs.append(f's{k} expected harvest at {min(cands)} but no summary row')
        # C13 contracts
        sched=None
        if meth==3:
            sched={}; 
            for dte,dep in zip(kw['Schedule'].Date,kw['Schedule'].Depth): sched[pd.Timestamp(dte)]=float(dep)
        for (a,r),t in zip(calls,got):
            (method,SMT,eff,maxirr,interval,Sch,depth,maxseason,stage,irrcum,epot,tpot,zroot,th,dap,tsc,cropo,prof,ztop,gsn,rain,runoff)=a
            D,T,cum,I=r
            if not gsn: expI=0.0
            else:
                if method in(0,4): e0=0.0
                elif method==1:
                    stg=1 if dap==1 else int(stage)
                    e0=min(maxirr,max(0,D)*(2-eff/100)) if D/T>1-SMT[stg-1]/100 else 0.0
                elif method==2: e0=min(maxirr,max(0,D)*(2-eff/100)) if (dap-1)%interval==0 else 0.0
                elif method==3: e0=min(maxirr,sched.get(span[tsc],0.0))
                elif method==5: e0=min(maxirr,depth)
                e0=max(0,e0); prev=irrcum
                expI=max(0,maxseason-prev) if prev+e0>maxseason else e0
            if abs(expI-I)>1e-9: msgs.append(f'C13 step {t} method {method} dap {dap} exp {expI} got {I}'); break
            rep=f.IrrDay.values[t]
            if method!=4 and abs(rep-(I if gsn else 0))>1e-12: msgs.append(f'C13 reported IrrDay {rep} != decision {I} at {t}'); break
        for k in set(f.season_counter.values[got].astype(int)):
            tot=f.IrrDay.values[[t for t in got if f.season_counter.values[t]==k and tbl_dap[t]>0]].sum()
            if meth!=4 and tot>irr.MaxIrrSeason+1e-9: msgs.append(f'C13 season total {tot} > cap {irr.MaxIrrSeason}')
        return desc,msgs,len(res)
    except BaseException as e:
        tb=traceback.extract_tb(e.__traceback__)
        own=[x for x in tb if 'aquacrop' in x.filename or 't13' in x.filename][-1]
        return desc,[f'RAISED {type(e).__name__} {str(e)[:90]} @ {own.filename.split("/")[-1]}:{own.lineno}'],0
    finally:
        rst.irrigation=orig
if __name__=='__main__':
    n=int(sys.argv[1]); tot=0; nf=0
    with mp.Pool(16) as p:
        for desc,msgs,ns in p.imap_unordered(one,range(n)):
            tot+=ns
            if msgs: nf+=1; print(desc,'\n    '+'\n    '.join(msgs[:5]))
    print('done seasons',tot,'cases with msgs',nf)

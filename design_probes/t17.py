from common import *
import traceback, multiprocessing as mp, sys, hashlib
def digest(m):
    h=hashlib.sha256()
    for df in (m.get_water_flux(),m.get_crop_growth(),m.get_water_storage()): h.update(np.ascontiguousarray(df.values.astype(float)).tobytes())
    h.update(repr(m.get_simulation_results().iloc[:,3:].values.astype(float).tolist()).encode()); return h.hexdigest()[:12]
def season_rows(m,k):
    out=[]
    for df in (m.get_water_flux(),m.get_crop_growth(),m.get_water_storage()):
        sc=m.get_water_flux().season_counter; dap=m.get_water_flux().dap
        d=df[(sc==k)&(dap>0)]; d=d.drop(columns=[c for c in ('time_step_counter','season_counter') if c in d.columns]).reset_index(drop=True); out.append(d.values.astype(float))
    return out
def c08(seed):
    rng=np.random.default_rng(seed); msgs=[]
    cn=rng.choice(['MaizeGDD','WheatGDD','PotatoGDD','TomatoGDD','Maize','Quinoa','PaddyRice','SorghumGDD'])
    pdte=rng.choice(['04/10','05/20','10/05']); 
    w=synth_weather(start='1998-01-01',days=3000,seed=seed,tmean=24,amp=4,rain_p=float(rng.choice([0.1,0.4])))
    meth=int(rng.choice([0,3,5])); kw={3:dict(Schedule=pd.DataFrame({'Date':pd.to_datetime('2000-01-01')+pd.to_timedelta(np.sort(rng.choice(1400,40,replace=False)),'D'),'Depth':rng.uniform(0,40,40)})),5:dict(depth=3.0)}.get(meth,{})
    fm=FieldMngt(bunds=bool(rng.integers(2)),z_bund=0.15,bund_water=float(rng.choice([0,40])),mulches=bool(rng.integers(2)))
    iw=rng.choice(['FC','WP','SAT'])
    hdt=pd.Timestamp('1999/'+pdte)+pd.Timedelta(days=int(rng.integers(150,260))); hd=f'{hdt.month:02d}/{hdt.day:02d}'
    mk=lambda s,e,irr:run(sim_start_time=s,sim_end_time=e,weather_df=w,soil=Soil('Loam'),crop=Crop(cn,planting_date=pdte,harvest_date=hd),initial_water_content=InitialWaterContent(value=[iw]),irrigation_management=irr,field_management=fm)
    mkirr=lambda:IrrigationManagement(meth,**{k:(v.copy() if hasattr(v,'copy') else v) for k,v in kw.items()})
    desc=f'seed={seed} {cn} {pdte} hd={hd} m{meth} bunds={fm.bunds} iw={iw}'
    try:
        end='2003/12/30'
        mm=mk('2000/'+pdte,end,mkirr()); pds=mm._clock_struct.planting_dates; res=mm.get_simulation_results()
        for k in range(1,len(res)):
            ms=mk(pds[k].strftime('%Y/%m/%d'),end,mkirr())
            A=season_rows(mm,k); B=season_rows(ms,0)
            ok=all(a.shape==b.shape and np.array_equal(a,b,equal_nan=True) for a,b in zip(A,B))
            ra=res.iloc[k,4:].values.astype(float); rb=ms.get_simulation_results().iloc[0,4:].values.astype(float)
            if not ok or not np.array_equal(ra,rb): msgs.append(f'season {k} differs (tables ok={ok}, summary {ra.tolist()} vs {rb.tolist()})')
        return desc,msgs
    except AssertionError as e: return desc,[]
    except BaseException as e:
        tb=[x for x in traceback.extract_tb(e.__traceback__) if 'aquacrop' in x.filename or 't17' in x.filename][-1]
        return desc,[f'RAISED {type(e).__name__} {str(e)[:90]} @ {tb.filename.split("/")[-1]}:{tb.lineno}']
def c14pad(seed):
    rng=np.random.default_rng(seed); msgs=[]
    cn=rng.choice(['MaizeGDD','WheatGDD','Maize','PotatoGDD','Tomato'])
    w=synth_weather(start='1998-01-01',days=3000,seed=seed,tmean=24,amp=4)
    mk=lambda wd:run(sim_start_time='2000/04/10',sim_end_time='2001/12/30',weather_df=wd,soil=Soil('Loam'),crop=Crop(cn,planting_date='04/10'),initial_water_content=InitialWaterContent(value=['FC']))
    desc=f'seed={seed} {cn}'
    try:
        a=mk(w); i0=w.index[w.Date==pd.Timestamp('2000-04-10')][0]; i1=w.index[w.Date==pd.Timestamp('2001-12-30')][0]
        w2=w.copy(); w2.loc[:i0-1,['MinTemp','MaxTemp','Precipitation','ReferenceET']]=rng.uniform(0.1,50,(i0,4)); w2.loc[i1+1:,['MinTemp','MaxTemp','Precipitation','ReferenceET']]=rng.uniform(0.1,50,(len(w)-i1-1,4))
        b=mk(w2); c=mk(w.loc[i0:i1]); d=mk(w.loc[i0-int(rng.integers(0,300)):i1+int(rng.integers(0,300))])
        for nm,x in (('garbage outside',b),('exact window',c),('partial pad',d)):
            if digest(a)!=digest(x): msgs.append(nm+' differs')
        return desc,msgs
    except BaseException as e:
        tb=[x for x in traceback.extract_tb(e.__traceback__) if 'aquacrop' in x.filename or 't17' in x.filename][-1]
        return desc,[f'RAISED {type(e).__name__} {str(e)[:90]} @ {tb.filename.split("/")[-1]}:{tb.lineno}']
def c10(seed):
    rng=np.random.default_rng(seed); msgs=[]
    w=synth_weather(start='1998-01-01',days=3000,seed=seed%3,tmean=24,amp=4)
    pool=[('Maize','SandyLoam',0),('Maize','SandyLoam',1),('WheatGDD','Clay',2),('Tomato','Paddy',4),('Maize','SandyLoam',0),('PotatoGDD','Loam',5)]
    def mk(i):
        cn,st,meth=pool[i]; nl=2 if st=='Paddy' else 1
        kw={} if nl==1 else dict(depth_layer=[1,2],value=['FC','FC'])
        return AquaCropModel(sim_start_time='2000/04/10',sim_end_time='2001/12/30',weather_df=w,soil=Soil(st),crop=Crop(cn,planting_date='04/10'),initial_water_content=InitialWaterContent(**kw),irrigation_management=IrrigationManagement(meth))
    solo={}
    for i in range(len(pool)):
        m=mk(i); m.run_model(till_termination=True); solo[i]=digest(m)
    ids=[int(x) for x in rng.choice(len(pool),4)]
    ms=[mk(i) for i in ids]
    for m in ms: m._initialize()
    live=list(range(4))
    while live:
        j=int(rng.choice(live)); m=ms[j]
        m.run_model(num_steps=int(rng.integers(1,60)),initialize_model=False)
        if m._clock_struct.model_is_finished: live.remove(j)
    for j,i in enumerate(ids):
        if digest(ms[j])!=solo[i]: msgs.append(f'instance {j} cfg {pool[i]} differs from solo')
    return f'seed={seed} ids={ids}',msgs
if __name__=='__main__':
    which,n=sys.argv[1],int(sys.argv[2]); nf=0
    fn={'c08':c08,'c14pad':c14pad,'c10':c10}[which]
    with mp.Pool(16) as p:
        for desc,msgs in p.imap_unordered(fn,range(n)):
            if msgs: nf+=1; print(desc,'\n    '+'\n    '.join(x[:300] for x in msgs[:4]))
    print(which,'done; cases with msgs',nf,'of',n)

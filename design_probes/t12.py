from common import *
from t4 import stepwise
import traceback, multiprocessing as mp, sys, hashlib
from aquacrop.entities.crops.crop_params import crop_params
SOILS=['Clay','ClayLoam','Default','Loam','LoamySand','Sand','SandyClay','SandyClayLoam','SandyLoam','Silt','SiltClayLoam','SiltLoam','SiltClay','Paddy','ac_TunisLocal']
CROPS=list(crop_params)
def phash(m):
    h={}
    P=m._param_struct
    prof=P.Soil.Profile
    h['profile']=hashlib.sha256(b''.join(np.ascontiguousarray(getattr(prof,a)).tobytes() for a in sorted(prof.__dict__))).hexdigest()[:10]
    h['soil']=repr({k:v for k,v in P.Soil.__dict__.items() if not hasattr(v,'shape') and k not in('profile','Profile','Hydrology')})
    for nm in ('IrrMngt','FallowIrrMngt','FieldMngt','FallowFieldMngt'):
        o=getattr(P,nm); h[nm]=repr({k:(v.tobytes() if hasattr(v,'tobytes') else v) for k,v in o.__dict__.items()})
    h['zgw']=np.asarray(P.z_gw,dtype=float).tobytes()
    h['weather']=hashlib.sha256(repr(m._weather.tolist()).encode()).hexdigest()[:10]
    for i,c in enumerate(P.Seasonal_Crop_List):
        h[f'crop{i}']=repr({k:(v.tolist() if hasattr(v,'tolist') else v) for k,v in sorted(c.__dict__.items())})
    h['co2']=repr({k:v for k,v in P.CO2.__dict__.items() if k not in('co2_data','co2_data_processed')})
    return h
def one(seed):
    rng=np.random.default_rng(seed)
    cn=CROPS[rng.integers(len(CROPS))]; c0=Crop(cn,planting_date='01/01')
    gddcrop=c0.CalendarType==2
    tmean=float(rng.choice([16,22,27])) if not gddcrop else float(rng.choice([22,27]))
    w=synth_weather(start='1998-01-01',days=2600,seed=seed,rain_p=rng.choice([0.05,0.3,0.6]),rain_scale=rng.choice([3,10,30]),tmean=tmean,amp=float(rng.choice([2,8])))
    if rng.random()<0.4:
        i0=int(rng.integers(800,1200)); w.loc[i0:i0+int(rng.integers(3,30)),'MaxTemp']+=float(rng.choice([-15,12,18])); w.loc[i0:i0+20,'MinTemp']=np.minimum(w.loc[i0:i0+20,'MinTemp'],w.loc[i0:i0+20,'MaxTemp']-2)
    pdte=rng.choice(['03/15','05/01','06/20','10/01'])
    st=SOILS[rng.integers(len(SOILS))]; nl=2 if st in('Paddy','ac_TunisLocal') else 1
    s=Soil(st)
    meth=int(rng.choice([0,0,1,2,4,5]))
    kw={}
    if meth==1: kw=dict(SMT=list(rng.choice([20,50,80,100],4)))
    if meth==2: kw=dict(IrrInterval=int(rng.integers(1,15)))
    if meth==4: kw=dict(NetIrrSMT=float(rng.choice([30,70,100])))
    if meth==5: kw=dict(depth=float(rng.choice([0,2,15])))
    irr=IrrigationManagement(meth,AppEff=float(rng.choice([50,80,100])),MaxIrrSeason=float(rng.choice([50,300,10000])),**kw)
    gw=None
    if rng.random()<0.35:
        if rng.random()<0.5: gw=GroundWater('Y','Constant',dates=['2000/01/01'],values=[float(rng.choice([0.2,0.4,1.0,2.0,3.5]))])
        else: gw=GroundWater('Y','Variable',dates=['2000/01/10','2000/08/01','2001/03/01','2001/12/30'],values=[float(x) for x in rng.choice([0.25,0.6,1.2,2.5,4.0],4)])
    iw=rng.choice(['FC','WP','SAT'])
    iwc=InitialWaterContent(depth_layer=list(range(1,nl+1)),value=[iw]*nl)
    off=bool(rng.integers(2))
    start='2000/01/10'
    cfg=dict(sim_start_time=start,sim_end_time='2001/12/30',weather_df=w,soil=s,crop=Crop(cn,planting_date=pdte),initial_water_content=iwc,irrigation_management=irr,groundwater=gw,off_season=off)
    desc=f'seed={seed} {cn} {pdte} {st} m{meth} off={off} gw={(gw.method,gw.values) if gw else None} iw={iw} T={tmean}'
    msgs=[]
    try:
        m=AquaCropModel(**cfg); m._initialize()
        h0=phash(m); changes={}
        prev_season=m._clock_struct.season_counter
        nsteps=0
        while not m._clock_struct.model_is_finished:
            m.run_model(num_steps=1,initialize_model=False); nsteps+=1
            h1=phash(m)
            for k in h0:
                if h0[k]!=h1[k]: changes.setdefault(k,[]).append((nsteps,m._clock_struct.season_counter)); h0[k]=h1[k]
        for k,v in changes.items():
            msgs.append(f'PARAM CHANGED {k} at {v[:4]}')
        g=m.get_crop_growth(); f=m.get_water_flux(); res=m.get_simulation_results()
        for k in sorted(set(g.season_counter[g.dap>0].astype(int))):
            cr=m._param_struct.Seasonal_Crop_List[k]
            gs=g[(g.season_counter==k)&(g.dap>0)]; fs=f.loc[gs.index]
            def chk(cond,msg):
                if not cond: msgs.append(f's{k} {msg}')
            chk((gs.canopy_cover>=-1e-12).all() and (gs.canopy_cover<=cr.CCx+1e-9).all(),f'CC range max {gs.canopy_cover.max()} CCx {cr.CCx}')
            chk((gs.canopy_cover<=gs.canopy_cover_ns+1e-12).all(),'CC>CCns')
            zr=gs.z_root.values
            chk((zr>=cr.Zmin-1e-9).all() and (zr<=cr.Zmax+1e-9).all(),f'zroot range {zr.min()} {zr.max()} Zmin {cr.Zmin} Zmax {cr.Zmax}')
            dz=np.diff(zr)
            if gw is None: chk((dz>=-1e-12).all(),f'zroot shrinks {dz.min()}')
            else:
                zg=fs.z_gw.values
                chk((zr<=np.maximum(zg,cr.Zmin)+1e-9).all(),'zroot below table')
                shr=np.where(dz<-1e-12)[0]
                bad=[i for i in shr if not abs(zr[i+1]-max(zg[i+1],cr.Zmin))<1e-9]
                chk(not bad,f'zroot shrinks w/o table bound at {bad[:3]}')
            hi=gs.harvest_index.values; chk((np.diff(hi)>=-1e-12).all(),f'HI decreases {np.diff(hi).min()}'); chk((hi<=cr.HI0+1e-12).all(),'HI>HI0')
            chk((gs.harvest_index_adj<=cr.HI0*(1+cr.dHI0/100)+1e-12).all(),f'HIadj>cap {gs.harvest_index_adj.max()} {cr.HI0*(1+cr.dHI0/100)}')
            chk((np.diff(gs.biomass.values)>=-1e-9).all(),'biomass decreases'); chk((np.diff(gs.biomass_ns.values)>=-1e-9).all(),'biomass_ns decreases')
            chk((np.diff(gs.gdd_cum.values)>=-1e-12).all(),'gddcum decreases')
            chk((gs.gdd>=0).all() and (gs.gdd<=cr.Tupp-cr.Tbase+1e-12).all(),'gdd range')
            chk(abs(gs.gdd.cumsum().values-gs.gdd_cum.values).max()<1e-8,'gdd sum')
            # C06
            et0=np.array([m._weather[i][3] for i in gs.index],dtype=float)
            b=np.diff(np.concatenate([[0],gs.biomass.values])); q=cr.WP*cr.fCO2*fs.Tr.values/et0
            lo=min(1,cr.WPy/100)*q-1e-9; hi_=max(1,cr.WPy/100)*q+1e-9
            chk(((b>=lo)&(b<=hi_)).all(),f'biomass gain out of band maxdev {np.max(np.maximum(lo-b,b-hi_))}')
            pre=(gs.harvest_index.values==0)
            chk(np.allclose(b[pre],q[pre],rtol=1e-9,atol=1e-12),f'biomass gain != q pre-HI {np.abs(b[pre]-q[pre]).max() if pre.any() else 0}')
            chk(np.allclose(gs.DryYield,gs.biomass/100*gs.harvest_index_adj,rtol=1e-12,atol=0),'DryYield')
            chk(np.allclose(gs.YieldPot,gs.biomass_ns/100*gs.harvest_index,rtol=1e-12,atol=0),'YieldPot')
            if cr.YldWC>0: chk(np.allclose(gs.FreshYield*(cr.YldWC/100),gs.DryYield,rtol=1e-12,atol=0),'FreshYield')
            chk(np.isfinite(gs.drop(columns=['FreshYield']).values.astype(float)).all(),'nonfinite growth')
        og=g[(g.dap==0)]
        if not (og[['canopy_cover','biomass','DryYield','FreshYield']].values==0).all(): msgs.append('offseason nonzero')
        # summary
        for _,r in res.iterrows():
            k=int(r['Season']); stp=int(r['Harvest Date (Step)'])
            if not (g.loc[stp,'DryYield']==r['Dry yield (tonne/ha)'] and g.loc[stp,'YieldPot']==r['Yield potential (tonne/ha)']): msgs.append(f'summary row {k} yields mismatch')
            if m._clock_struct.time_span[stp]+pd.Timedelta(days=1)!=r['Harvest Date (YYYY/MM/DD)']: msgs.append(f'summary date {k}')
            irs=f[(f.season_counter==k)&(f.dap>0)].IrrDay.sum()
            if abs(irs-r['Seasonal irrigation (mm)'])>1e-9*max(1,abs(irs)): msgs.append(f'summary irr {k} {irs} vs {r["Seasonal irrigation (mm)"]}')
        return desc,msgs,len(res)
    except BaseException as e:
        tb=traceback.extract_tb(e.__traceback__)[-1]
        return desc,[f'RAISED {type(e).__name__} {str(e)[:90]} @ {tb.filename.split("/")[-1]}:{tb.lineno}'],0
if __name__=='__main__':
    n=int(sys.argv[1]); tot=0
    with mp.Pool(16) as p:
        for desc,msgs,ns in p.imap_unordered(one,range(n)):
            tot+=ns
            if msgs: print(desc,'\n    '+'\n    '.join(msgs[:8]))
    print('done seasons',tot)

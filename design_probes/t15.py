from common import *
import traceback, multiprocessing as mp, sys, itertools, collections
from aquacrop.entities.crops.crop_params import crop_params
SOILS=['Clay','ClayLoam','Default','Loam','LoamySand','Sand','SandyClay','SandyClayLoam','SandyLoam','Silt','SiltClayLoam','SiltLoam','SiltClay','Paddy','ac_TunisLocal']
def one(args):
    cn,st,meth=args
    w=synth_weather(start='1999-01-01',days=1500,seed=hash((cn,st))%1000,tmean=24,amp=4,rain_p=0.3)
    nl=2 if st in('Paddy','ac_TunisLocal') else 1
    kw={1:dict(SMT=[60]*4),2:dict(IrrInterval=7),3:dict(Schedule=pd.DataFrame({'Date':pd.to_datetime(['2000-05-01','2000-06-01']),'Depth':[20.,30.]})),4:dict(NetIrrSMT=70),5:dict(depth=4)}.get(meth,{})
    try:
        m=run(sim_start_time='2000/04/01',sim_end_time='2001/10/30',weather_df=w,soil=Soil(st),crop=Crop(cn,planting_date='04/10'),initial_water_content=InitialWaterContent(depth_layer=list(range(1,nl+1)),value=['FC']*nl),irrigation_management=IrrigationManagement(meth,**kw))
        bad=[]
        for nm,df in (('flux',m.get_water_flux().drop(columns=['z_gw'])),('growth',m.get_crop_growth()),('stor',m.get_water_storage())):
            v=df.values.astype(float); 
            if not np.isfinite(v).all(): bad+= [f'{nm}.{c}' for c in df.columns[~np.isfinite(v).all(axis=0)]]
        r=m.get_simulation_results()
        if not np.isfinite(r.iloc[:,3:].values.astype(float)).all(): bad.append('summary')
        return (cn,st,meth,'nonfinite:'+','.join(bad) if bad else 'ok')
    except BaseException as e:
        tb=[x for x in traceback.extract_tb(e.__traceback__) if 'aquacrop' in x.filename][-1]
        return (cn,st,meth,f'{type(e).__name__}@{tb.filename.split("/")[-1]}:{tb.lineno} {str(e)[:50]}')
if __name__=='__main__':
    cells=[(c,s,m) for c in crop_params for s in SOILS for m in ([0] if len(sys.argv)<2 else range(6))]
    with mp.Pool(16) as p: res=p.map(one,cells,chunksize=4)
    b=collections.defaultdict(list)
    for cn,st,meth,r in res: b[r].append((cn,st,meth))
    for k,v in sorted(b.items(),key=lambda kv:-len(kv[1])): print(len(v),k,'| crops:',sorted(set(x[0] for x in v))[:8],'soils:',len(set(x[1] for x in v)))

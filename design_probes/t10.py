from common import *
import traceback, subprocess, sys, hashlib
w=synth_weather(start='1995-01-01',days=4000,seed=5)
B=lambda **kw:{**dict(sim_start_time='2000/05/01',sim_end_time='2000/12/30',weather_df=w,soil=Soil('SandyLoam'),crop=Crop('Maize',planting_date='05/01'),initial_water_content=InitialWaterContent(value=['FC'])),**kw}
def tabs(m): return [m.get_water_flux().drop(columns=['z_gw']).values.astype(float),m.get_crop_growth().values.astype(float),m.get_water_storage().values.astype(float)]
def eq(a,b): return all(np.array_equal(x,y,equal_nan=True) for x,y in zip(tabs(a),tabs(b)))
for st in ('SandyLoam','Clay','Paddy','ac_TunisLocal'):
  for iwc in (['FC'],['WP'],['SAT']):
    n=2 if st in('Paddy','ac_TunisLocal') else 1
    a=run(**B(soil=Soil(st),initial_water_content=InitialWaterContent(depth_layer=list(range(1,n+1)),value=iwc*n)))
    for z in (8.0,50.0):
        b=run(**B(soil=Soil(st),initial_water_content=InitialWaterContent(depth_layer=list(range(1,n+1)),value=iwc*n),groundwater=GroundWater('Y','Constant',dates=['2000/05/01'],values=[z])))
        print('C19 far table',st,iwc,z,'same as none:',eq(a,b), 'CR',b.get_water_flux().CR.sum())
# C09 sample
m=AquaCropModel(**B()); m._initialize(); 
import random; random.seed(1)
while not m._clock_struct.model_is_finished: m.run_model(num_steps=random.randint(1,9),initialize_model=False)
a=run(**B()); print('C09 same', eq(a,m), m.get_additional_information()['has_model_finished'])
# C13 wrapper feasibility
import aquacrop.timestep.run_single_timestep as rst
orig=rst.irrigation; calls=[]
def wrap(*a): 
    r=orig(*a); calls.append((a[8],a[9],a[14],a[19],r)); return r
rst.irrigation=wrap
mm=run(**B(irrigation_management=IrrigationManagement(1,SMT=[70,60,50,40],AppEff=80,MaxIrr=20)))
rst.irrigation=orig
print('C13 wrapper calls',len(calls), [c for c in calls if c[4][3]>0][:3])

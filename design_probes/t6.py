from common import *
import traceback
w=synth_weather(start='1995-01-01',days=4000,seed=3)
B=lambda **kw:{**dict(sim_start_time='2000/05/01',sim_end_time='2000/12/30',weather_df=w,soil=Soil('SandyLoam'),crop=Crop('Maize',planting_date='05/01'),initial_water_content=InitialWaterContent(value=['FC'])),**kw}
def tryrun(name,**kw):
    try:
        m=run(**B(**kw)); r=m.get_simulation_results(); f=m.get_water_flux()
        print(name,'OK seasons',len(r),'rows sim',int((f.time_step_counter>0).sum())+1, 'last tsc',int(f.time_step_counter.max()))
        return m
    except BaseException as e:
        tb=traceback.extract_tb(e.__traceback__)[-1]
        print(name,'RAISED',type(e).__name__,str(e)[:100],'@',tb.filename.split('/')[-1],tb.lineno)
# no-season windows
tryrun('noseason start after planting',sim_start_time='2000/06/01',sim_end_time='2000/12/30')
tryrun('noseason end before planting',sim_start_time='2000/01/01',sim_end_time='2000/04/15')
tryrun('end == planting',sim_start_time='2000/01/01',sim_end_time='2000/05/01')
tryrun('end == planting+1',sim_start_time='2000/01/01',sim_end_time='2000/05/02')
tryrun('start before planting',sim_start_time='2000/04/20',sim_end_time='2000/12/30')
tryrun('start before planting offseason',sim_start_time='2000/04/20',sim_end_time='2001/12/30',off_season=True)
tryrun('end mid-season',sim_start_time='2000/05/01',sim_end_time='2000/07/15')
tryrun('leap start',sim_start_time='2000/02/29',sim_end_time='2000/12/30')
tryrun('leap end',sim_start_time='2003/05/01',sim_end_time='2004/02/29')
tryrun('leap planting',crop=Crop('Maize',planting_date='02/29'),sim_start_time='2000/02/29',sim_end_time='2000/12/30')
tryrun('wheat cross-year',crop=Crop('Wheat',planting_date='10/01'),sim_start_time='2000/10/01',sim_end_time='2003/09/30')
tryrun('wheat cross-year end at dec',crop=Crop('Wheat',planting_date='10/01'),sim_start_time='2000/10/01',sim_end_time='2002/12/31')
tryrun('wheat cross-year harvest spans feb29',crop=Crop('Wheat',planting_date='11/15'),sim_start_time='2003/11/15',sim_end_time='2004/12/31')
tryrun('sugarcane 365',crop=Crop('SugarCane',planting_date='05/01'),sim_start_time='2000/05/01',sim_end_time='2002/12/31')
tryrun('cassava 360',crop=Crop('Cassava',planting_date='05/01'),sim_start_time='2000/05/01',sim_end_time='2002/12/31')
tryrun('maizeGDD',crop=Crop('MaizeGDD',planting_date='05/01'),sim_start_time='2000/05/01',sim_end_time='2002/12/31')
tryrun('maizeGDD cold planting',crop=Crop('MaizeGDD',planting_date='11/01'),sim_start_time='2000/11/01',sim_end_time='2002/12/31')
tryrun('gw variable',groundwater=GroundWater('Y','Variable',dates=['2000/05/01','2000/08/01','2000/12/30'],values=[2.0,1.0,2.5]))
tryrun('gw variable partial cover',groundwater=GroundWater('Y','Variable',dates=['2000/06/01','2000/08/01'],values=[2.0,1.0]))
tryrun('gw constant multi',groundwater=GroundWater('Y','Constant',dates=['2000/06/01','2000/08/01'],values=[2.0,1.0]))
tryrun('gw date outside window',groundwater=GroundWater('Y','Variable',dates=['2000/01/01','2001/08/01'],values=[2.0,1.0]))
tryrun('gw deep 50m',groundwater=GroundWater('Y','Constant',dates=['2000/05/01'],values=[50.0]))
tryrun('gw 0.2',groundwater=GroundWater('Y','Constant',dates=['2000/05/01'],values=[0.2]))
tryrun('gw 0.0',groundwater=GroundWater('Y','Constant',dates=['2000/05/01'],values=[0.0]))
for st in ['Clay','ClayLoam','Default','Loam','LoamySand','Sand','SandyClay','SandyClayLoam','SandyLoam','Silt','SiltClayLoam','SiltLoam','SiltClay','Paddy','ac_TunisLocal']:
    tryrun('gw1.0 '+st,soil=Soil(st),groundwater=GroundWater('Y','Constant',dates=['2000/05/01'],values=[1.0]))

from common import *
from aquacrop.entities.crops.crop_params import crop_params
from aquacrop.solution.water_stress import water_stress
from aquacrop.solution.temperature_stress import temperature_stress
from aquacrop.solution.cc_development import cc_development
from aquacrop.solution.cc_required_time import cc_required_time
bad=0
for cn in crop_params:
    c=Crop(cn,planting_date='05/01')
    if (c.fshape_w==0).any(): print(cn,'fshape_w has 0',c.fshape_w)
    if (c.p_up>c.p_lo).any(): print(cn,'p_up>p_lo',c.p_up,c.p_lo)
    if c.PolHeatStress and c.Tmax_lo>=c.Tmax_up: print(cn,'Tmax_lo>=Tmax_up',c.Tmax_lo,c.Tmax_up)
    if c.PolColdStress and c.Tmin_lo>=c.Tmin_up: print(cn,'Tmin_lo>=Tmin_up',c.Tmin_lo,c.Tmin_up)
    for et0 in (0.1,1,5,12,20):
        prev=None
        for d in np.linspace(-20,120,141):
            ks=water_stress(c.p_up,c.p_lo,c.ETadj,c.beta,c.fshape_w,0,d,100.0,et0,True)
            ks=np.array(ks,dtype=float)
            if not np.all(np.isfinite(ks)) or (ks<-1e-12).any() or (ks>1+1e-12).any(): bad+=1; print(cn,et0,d,ks)
            if prev is not None and (ks>prev+1e-12).any(): bad+=1; print('nonmono',cn,et0,d,ks,prev)
            prev=ks
    # cc growth
    for t in range(0,300,3):
        cc=cc_development(c.CC0,c.CCx,c.CGC_CD if c.CalendarType==1 else c.CGC,c.CDC,t,'Growth',c.CCx)
        if 0<cc<c.CCx*0.999 and cc>c.CC0:
            tr=cc_required_time(cc,c.CC0,c.CCx,c.CGC_CD if c.CalendarType==1 else c.CGC,c.CDC,'CGC')
            if abs(tr-t)>1e-6*max(1,t): bad+=1; print('inv',cn,t,tr,cc)
print('bad',bad)

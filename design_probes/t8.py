from common import *
import signal, traceback
class TO(Exception): pass
def h(*a): raise TO()
signal.signal(signal.SIGALRM,h)
w=synth_weather(start='1995-01-01',days=4000,seed=3)
B=lambda **kw:{**dict(sim_start_time='2000/05/01',sim_end_time='2000/12/30',weather_df=w,soil=Soil('SandyLoam'),crop=Crop('Maize',planting_date='05/01'),initial_water_content=InitialWaterContent(value=['FC'])),**kw}
def init(name,**kw):
    signal.alarm(10)
    try:
        m=AquaCropModel(**B(**kw)); m._initialize(); signal.alarm(0)
        p=m._param_struct.Soil.Profile
        print(name,'OK n',len(p.dz),'dz',p.dz.round(2).tolist(),'zSoil',m._param_struct.Soil.zSoil,'Layer',p.Layer.tolist(),'th0',m._init_cond.th.round(3).tolist())
        return m
    except TO: print(name,'TIMEOUT (hang)')
    except BaseException as e:
        signal.alarm(0); tb=traceback.extract_tb(e.__traceback__)[-1]; print(name,'RAISED',type(e).__name__,str(e)[:100],'@',tb.filename.split('/')[-1],tb.lineno)
def custom(dz,layers):
    s=Soil('custom',dz=dz)
    for L in layers: s.add_layer(*L)
    return s
L1=(10,0.1,0.22,0.41,1200,100)
init('dz .3x4 (1.2m<Zmax)',soil=custom([0.3]*4,[L1]))
init('dz .25x4',soil=custom([0.25]*4,[L1]))
init('dz .2x6',soil=custom([0.2]*6,[L1]))
init('dz mixed',soil=custom([0.05,0.05,0.1,0.15,0.2,0.3,0.35],[L1]))
init('two layers 0.7+0.1+rest',soil=custom([0.1]*12,[(0.7,0.1,0.22,0.41,1200,100),(0.1,0.15,0.3,0.45,500,100),(5,0.2,0.35,0.5,100,100)]))
init('two layers .35 boundary inside comp',soil=custom([0.1]*12,[(0.35,0.1,0.22,0.41,1200,100),(5,0.15,0.3,0.45,500,100)]))
init('layer thinner than first comp',soil=custom([0.2]*8,[(0.1,0.1,0.22,0.41,1200,100),(5,0.15,0.3,0.45,500,100)]))
s=Soil('custom',dz=[0.1]*12); s.add_layer_from_texture(0.5,40,30,2.0,100); s.add_layer_from_texture(2,20,45,1.0,100)
init('texture',soil=s)
init('iwc Pct layer',initial_water_content=InitialWaterContent('Pct','Layer',[1],[50]))
init('iwc Num depth',initial_water_content=InitialWaterContent('Num','Depth',[0.2,0.8,2.0],[0.15,0.2,0.3]))
init('iwc Prop depth paddy',soil=Soil('Paddy'),initial_water_content=InitialWaterContent('Prop','Depth',[0.2,0.8],['WP','SAT']))
init('iwc Prop layer paddy',soil=Soil('Paddy'),initial_water_content=InitialWaterContent('Prop','Layer',[1,2],['WP','SAT']))
init('iwc Pct depth paddy',soil=Soil('Paddy'),initial_water_content=InitialWaterContent('Pct','Depth',[0.2,0.5,0.8],[10,50,90]))
init('alfalfa Zmax 3',crop=Crop('AlfalfaGDD',planting_date='05/01'))

# C18 reference profile + IWC prototype; C08 with explicit harvest date for GDD/bunds; C14 padding
from common import *
import traceback, multiprocessing as mp, sys, signal
from aquacrop.entities.crops.crop_params import crop_params
SOILPROPS={'Clay':[(None,0.39,0.54,0.55,35)],'ClayLoam':[(None,0.23,0.39,0.5,125)],'Default':[(None,0.1,0.3,0.5,500)],'Loam':[(None,0.15,0.31,0.46,500)],'LoamySand':[(None,0.08,0.16,0.38,2200)],'Sand':[(None,0.06,0.13,0.36,3000)],'SandyClay':[(None,0.27,0.39,0.5,35)],'SandyClayLoam':[(None,0.20,0.32,0.47,225)],'SandyLoam':[(None,0.10,0.22,0.41,1200)],'Silt':[(None,0.09,0.33,0.43,500)],'SiltClayLoam':[(None,0.23,0.44,0.52,150)],'SiltLoam':[(None,0.13,0.33,0.46,575)],'SiltClay':[(None,0.32,0.50,0.54,100)],'Paddy':[(0.5,0.32,0.50,0.54,15),(1.5,0.39,0.54,0.55,2)]}
class NoProgress(Exception): pass
def c18(seed):
    rng=np.random.default_rng(seed); msgs=[]
    st=list(SOILPROPS)[rng.integers(len(SOILPROPS))]
    cn=list(crop_params)[rng.integers(37)]; zmax=crop_params[cn]['Zmax']
    if rng.random()<0.5: dz=[0.1]*12
    else:
        n=int(rng.integers(8,20)); dz=[float(x) for x in rng.choice([0.05,0.1,0.15,0.2],n)]
    # guarantee deepening can complete: each comp can grow to <=0.34
    def can(dz):
        d=list(dz); tot=sum(d)
        for i in range(len(d)-1,-1,-1):
            while d[i]<0.25 and round(sum(d),2)<zmax+0.1: d[i]=round(d[i]+0.1,2)
        return round(sum(d),2)>=zmax+0.1
    if not can(dz): return f'seed={seed}',['excluded F18b'],
    layers=SOILPROPS[st]; nl=len(layers)
    typ=rng.choice(['Prop','Pct','Num']); meth=rng.choice(['Layer','Depth'])
    if meth=='Layer': dl=list(range(1,nl+1))
    else: dl=sorted(set(float(x) for x in rng.choice([0.1,0.25,0.4,0.6,0.9,1.4,2.2,3.5],int(rng.integers(1,5)),replace=False)))
    if typ=='Prop': vals=[str(x) for x in rng.choice(['WP','FC','SAT'],len(dl))]
    elif typ=='Pct': vals=[float(x) for x in rng.uniform(0,100,len(dl))]
    else: vals=[float(x) for x in rng.uniform(0.33,0.36,len(dl))] if st!='Paddy' else [float(x) for x in rng.uniform(0.40,0.5,len(dl))]
    if typ=='Num' and st not in('Paddy',): 
        wp,fc,sat=layers[0][1],layers[0][2],layers[0][3]; vals=[float(x) for x in rng.uniform(wp,sat,len(dl))]
    desc=f'seed={seed} {st} {cn} Zmax={zmax} dz={dz if len(dz)!=12 or dz[0]!=0.1 else "default"} iwc={typ}/{meth} {dl} {vals}'
    w=synth_weather(start='1999-01-01',days=1500,seed=1,tmean=24)
    try:
        s=Soil(st,dz=list(dz))
        m=AquaCropModel(sim_start_time='2000/04/01',sim_end_time='2001/10/30',weather_df=w,soil=s,crop=Crop(cn,planting_date='04/10'),initial_water_content=InitialWaterContent(typ,meth,dl,vals))
        signal.alarm(20); m._initialize(); signal.alarm(0)
        P=m._param_struct.Soil.Profile; n=len(P.dz)
        if abs(np.cumsum(P.dz)-P.dzsum).max()>1e-9: msgs.append('dzsum != cumsum(dz)')
        if abs(P.zBot-P.dzsum).max()>1e-9 or abs(P.z_top-(P.dzsum-P.dz)).max()>1e-9 or abs(P.zMid-(P.dzsum-P.dz/2)).max()>1e-9: msgs.append(f'F18a stale zBot/z_top/zMid (deepened={abs(sum(dz)-P.dzsum[-1])>1e-9})')
        L=P.Layer
        if L[0]!=1 or (np.diff(L)<0).any() or (np.diff(L)>1).any(): msgs.append(f'layers not contiguous {L}')
        if not ((P.th_dry<P.th_wp)&(P.th_wp<P.th_fc)&(P.th_fc<=P.th_s)).all(): msgs.append('theta order')
        if ((P.tau<0)|(P.tau>1)).any(): msgs.append('tau')
        for i in range(n):
            lay=layers[L[i]-1]
            if (P.th_wp[i],P.th_fc[i],P.th_s[i],P.Ksat[i])!=tuple(lay[1:5]) or abs(P.th_dry[i]-lay[1]/2)>1e-12: msgs.append(f'comp {i} props != layer {L[i]}'); break
        # layer boundaries as specified (expected layer of compartment = first layer whose cumulative thickness >= original bottom)
        if sum(dz)<zmax+0.1-1e-9:
            if P.dzsum[-1]<zmax+0.1-1e-9: msgs.append(f'not deep enough {P.dzsum[-1]} < {zmax+0.1}')
        # IWC reference
        mid=np.cumsum(P.dz)-P.dz/2; bot=np.cumsum(P.dz)
        def layer_at(d):
            idx=np.where(bot>d)[0]; return L[idx[0]] if len(idx) else L[-1]
        def val(layer,v):
            wp,fc,sat=layers[layer-1][1:4]
            if typ=='Num': return float(v)
            if typ=='Pct': return wp+float(v)/100*(fc-wp)
            return {'WP':wp,'FC':fc,'SAT':sat}[v]
        if meth=='Layer': ref=np.array([val(L[i],vals[dl.index(L[i])]) for i in range(n)])
        else:
            pts=[val(layer_at(d),v) for d,v in zip(dl,vals)]; dd=list(dl)
            if dd[0]>0: dd=[0]+dd; pts=[pts[0]]+pts
            if dd[-1]<bot[-1]: dd=dd+[bot[-1]]; pts=pts+[pts[-1]]
            ref=np.interp(mid,dd,pts)
        th0=m._init_cond.th
        if abs(th0-ref).max()>1e-9: msgs.append(f'IWC differs from reference max {abs(th0-ref).max():.4g} at comp {int(np.argmax(abs(th0-ref)))} got {th0.round(4).tolist()} ref {ref.round(4).tolist()}')
        return desc,msgs
    except BaseException as e:
        signal.alarm(0)
        tb=[x for x in traceback.extract_tb(e.__traceback__) if 'aquacrop' in x.filename or 't16' in x.filename][-1]
        return desc,[f'RAISED {type(e).__name__} {str(e)[:90]} @ {tb.filename.split("/")[-1]}:{tb.lineno}']
if __name__=='__main__':
    n=int(sys.argv[1]); nf=0; ex=0
    with mp.Pool(16) as p:
        for r in p.imap_unordered(c18,range(n)):
            desc,msgs=r[0],r[1]
            if msgs==['excluded F18b']: ex+=1; continue
            msgs=[x for x in msgs if not x.startswith('F18a')] if '--hide18a' in sys.argv else msgs
            if msgs: nf+=1; print(desc[:260],'\n    '+'\n    '.join(x[:300] for x in msgs[:6]))
    print('done; cases with msgs',nf,'excluded',ex,'of',n)
